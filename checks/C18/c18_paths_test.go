//go:build verif

package handler_test

import (
	"bytes"
	"encoding/base64"
	"fmt"
	"net/http"
	"testing"
	"time"

	"github.com/zeromicro/go-zero/core/codec"
	"github.com/zeromicro/go-zero/core/logx"
	"github.com/zeromicro/go-zero/internal/verifc18"
	"github.com/zeromicro/go-zero/internal/verifkit"
	"github.com/zeromicro/go-zero/rest/handler"
	"pgregory.net/rapid"
)

// Units cryption-paths / cryption-paths-wire / aesecb-direct of property C18: the
// encrypted-mode path with malformed request bodies and non-echo handlers, and
// core/codec/aesecb.go directly.  Generators, the reference decoder and the oracle are
// in internal/verifc18 (c18paths.go).

func pathsBuild() verifc18.PathsBuild {
	return verifc18.PathsBuild{
		Crypt: func(limit int64, key []byte, inner http.Handler) http.Handler {
			if limit < 0 {
				return handler.CryptionHandler(key)(inner)
			}
			return handler.LimitCryptionHandler(limit, key)(inner)
		},
		CS: func(limit int64, conf verifc18.CSConf, keyFiles map[string]string, inner http.Handler) http.Handler {
			decs := map[string]codec.RsaDecrypter{}
			for fp, f := range keyFiles {
				decs[fp] = decrypterFor(f)
			}
			tol := time.Duration(conf.TolSec) * time.Second
			if limit < 0 {
				return handler.ContentSecurityHandler(decs, tol, true)(inner)
			}
			return handler.LimitContentSecurityHandler(limit, decs, tol, true)(inner)
		},
	}
}

func partialBlockKnown() bool {
	return verifkit.KnownFindings("C18")[verifc18.KnownPartialBlock]
}

func noCiphertextKnown() bool {
	return verifkit.KnownFindings("C18")[verifc18.KnownNoCiphertext]
}

func pathsOpt() verifc18.PathsOpt {
	return verifc18.PathsOpt{ExcludePartialBlock: partialBlockKnown(), ExcludeNoCiphertext: noCiphertextKnown()}
}

func TestVerifC18CryptionPaths(t *testing.T) {
	logx.Disable()
	env, err := verifc18.GetEnv()
	if err != nil {
		t.Fatalf("rsa setup: %v", err)
	}
	st := verifkit.New("cryption-paths")
	defer st.Flush()
	opt, build := pathsOpt(), pathsBuild()
	rapid.Check(t, func(t *rapid.T) {
		st.Eval()
		verifc18.RunPathsCase(t, st, env, opt, build)
	})
}

// The same property with every request travelling through a real HTTP server: unknown
// length is Transfer-Encoding: chunked, Flush really sends the header block, a panic in
// the middleware shows as a closed connection.
func TestVerifC18CryptionPathsWire(t *testing.T) {
	logx.Disable()
	env, err := verifc18.GetEnv()
	if err != nil {
		t.Fatalf("rsa setup: %v", err)
	}
	st := verifkit.New("cryption-paths-wire")
	defer st.Flush()
	opt, build := pathsOpt(), pathsBuild()
	opt.Wire = verifc18.NewWireTarget()
	defer opt.Wire.Close()
	rapid.Check(t, func(t *rapid.T) {
		st.Eval()
		verifc18.RunPathsCase(t, st, env, opt, build)
	})
}

// reported: the known finding was already printed by this test (once per test is enough).
func reportPathsKnownOrFail(t *testing.T, st *verifkit.Stats, problem, defect string, reported *bool) {
	t.Helper()
	if problem == "" {
		return
	}
	if *reported && ((defect == verifc18.KnownPartialBlock && partialBlockKnown()) || (defect == verifc18.KnownNoCiphertext && noCiphertextKnown())) {
		return
	}
	switch {
	case defect == verifc18.KnownPartialBlock && partialBlockKnown():
		*reported = true
		st.KnownFinding(defect, "a ciphertext that is not a whole number of AES blocks reaches the handler as that many zero bytes with status 200 (ECB CryptBlocks only logs, pkcs5Unpadding accepts padding length 0)")
		return
	case defect == verifc18.KnownNoCiphertext && noCiphertextKnown():
		*reported = true
		st.KnownFinding(defect, "a non-empty body that base64-decodes to zero bytes panics in the cryption middleware (codec.EcbDecrypt of an empty slice: index out of range [-1])")
		return
	}
	t.Fatalf("C18: %s", problem)
}

var regressKey = []byte("0123456789abcdef")

func regressPlan() verifc18.RespPlan {
	return verifc18.RespPlan{Read: "all", Chunks: [][]byte{[]byte("pong")}, FlushAfter: []bool{false}}
}

// Regression (FINDINGS.md, C18-F1), shrunk from TestVerifC18CryptionPaths: the body
// "AAAA" (three ciphertext bytes) is not the encryption of anything; the handler must not
// be handed a body that is not the decryption of what was sent.
func TestVerifC18PathsRegressPartialBlock(t *testing.T) {
	logx.Disable()
	env, err := verifc18.GetEnv()
	if err != nil {
		t.Fatalf("rsa setup: %v", err)
	}
	st := verifkit.New("regress-paths-partial-block")
	defer st.Flush()
	reported := false
	for _, gate := range []string{"bare", "cs"} {
		for _, body := range []string{"AAAA", "AAAAAAAAAAAAAAAAAAAAAAAA"} { // 3 and 18 ciphertext bytes
			st.Eval()
			c := verifc18.PathsCase{Gate: gate, Key: regressKey, Limit: -1, Shape: verifc18.ShapeSized, Method: http.MethodPost, Path: "/any",
				Conf: verifc18.CSConf{TolSec: 3600, FpA: "fp-a", FpB: "fp-b"}, BodyKind: "plain", BodyDesc: "regression", Wire: []byte(body), Plan: regressPlan()}
			st.Sample(c.String())
			_, problem, defect, inconclusive := verifc18.CheckPaths(env, c, pathsBuild(), nil)
			if inconclusive {
				st.Note("regression request inconclusive")
				continue
			}
			reportPathsKnownOrFail(t, st, problem, defect, &reported)
		}
	}
}

// Regression (FINDINGS.md, C18-F2), shrunk from TestVerifC18CryptionPaths and
// TestVerifC18AesEcbDirect: a body of one line break is valid base64 of zero bytes; no
// panic may reach the caller, and codec.EcbDecrypt of an empty slice must not panic.
func TestVerifC18PathsRegressNoCiphertext(t *testing.T) {
	logx.Disable()
	env, err := verifc18.GetEnv()
	if err != nil {
		t.Fatalf("rsa setup: %v", err)
	}
	st := verifkit.New("regress-paths-no-ciphertext")
	defer st.Flush()
	reported := false
	for _, gate := range []string{"bare", "cs"} {
		st.Eval()
		c := verifc18.PathsCase{Gate: gate, Key: regressKey, Limit: -1, Shape: verifc18.ShapeSized, Method: http.MethodPost, Path: "/any",
			Conf: verifc18.CSConf{TolSec: 3600, FpA: "fp-a", FpB: "fp-b"}, BodyKind: "blank", BodyDesc: "regression", Wire: []byte("\n"), Plan: regressPlan()}
		st.Sample(c.String())
		_, problem, defect, inconclusive := verifc18.CheckPaths(env, c, pathsBuild(), nil)
		if inconclusive {
			st.Note("regression request inconclusive")
			continue
		}
		reportPathsKnownOrFail(t, st, problem, defect, &reported)
	}
	st.Eval()
	st.Sample("codec.EcbDecrypt(16-byte key, empty slice)")
	if p := ecbDecryptPanics(regressKey, nil); p != "" {
		reportPathsKnownOrFail(t, st, "codec.EcbDecrypt(key, empty slice) panicked: "+p, verifc18.KnownNoCiphertext, &reported)
	}
}

func ecbDecryptPanics(key, src []byte) (panicked string) {
	defer func() {
		if r := recover(); r != nil {
			panicked = fmt.Sprint(r)
		}
	}()
	codec.EcbDecrypt(key, src)
	return ""
}

// ------------------------------------------------------------------ core/codec/aesecb.go directly

var garbageLen = []int{0, 1, 15, 16, 17, 31, 32, 33, 48}

func TestVerifC18AesEcbDirect(t *testing.T) {
	logx.Disable()
	st := verifkit.New("aesecb-direct")
	defer st.Flush()
	skipEmpty := noCiphertextKnown()
	b64 := base64.StdEncoding.EncodeToString
	rapid.Check(t, func(t *rapid.T) {
		st.Eval()
		keyLen := rapid.SampledFrom([]int{16, 24, 32}).Draw(t, "keyLen")
		key := rapid.SliceOfN(rapid.Byte(), keyLen, keyLen).Draw(t, "key")
		p := verifc18.GenPayload(t, "payload")
		// the payload is handed over as a slice with spare capacity behind it (as
		// bytes.Buffer.Bytes() is in the response path); the bytes behind it are the caller's
		spare := rapid.SampledFrom([]int{0, 0, 1, 16, 40}).Draw(t, "spareCap")
		backing := make([]byte, len(p)+spare)
		copy(backing, p)
		for i := len(p); i < len(backing); i++ {
			backing[i] = 0xEE
		}
		src := backing[:len(p)]
		desc := fmt.Sprintf("key=%x payload=%dB %x", key, len(p), clipBytes(p, 40))
		fail := func(format string, a ...any) {
			t.Fatalf("C18/aesecb-direct: %s\n case: %s", fmt.Sprintf(format, a...), desc)
		}

		ct, err := codec.EcbEncrypt(key, src)
		if err != nil {
			fail("EcbEncrypt: %v", err)
		}
		if !bytes.Equal(src, p) {
			fail("EcbEncrypt changed its input")
		}
		for i := len(p); i < len(backing); i++ {
			if backing[i] != 0xEE {
				st.Class("ecb/observed:EcbEncrypt-wrote-its-padding-behind-the-input-slice(spare capacity)")
				break
			}
		}
		want, err := verifc18.ECBEncrypt(key, p)
		if err != nil {
			fail("generator bug: %v", err)
		}
		if !bytes.Equal(ct, want) {
			fail("EcbEncrypt = %x, the reference AES-ECB/PKCS#7 encoder says %x", clipBytes(ct, 64), clipBytes(want, 64))
		}
		back, err := codec.EcbDecrypt(key, ct)
		if err != nil {
			fail("EcbDecrypt(EcbEncrypt(p)): %v", err)
		}
		if !bytes.Equal(back, p) {
			fail("EcbDecrypt(EcbEncrypt(p)) = %dB %x, want p", len(back), clipBytes(back, 40))
		}
		st.Class(fmt.Sprintf("ecb/key=%d", keyLen))
		st.Class(fmt.Sprintf("ecb/payload%%16=%d", len(p)%16))

		// *Base64 variants.  Their documentation: "with the given base64 encoded key", "base64
		// encoded src", "the returned string is also base64 encoded".  The implementation
		// takes a key text of at most 32 characters as the raw key, so the documented
		// reading holds for 32-byte keys only (44 characters); for 16- and 24-byte keys the
		// result must be that of one of the two readings (counted, not asserted which).
		keyText := b64(key)
		encB64, err := codec.EcbEncryptBase64(keyText, b64(p))
		if err != nil {
			fail("EcbEncryptBase64: %v", err)
		}
		documented := b64(ct)
		quirkCT, _ := verifc18.ECBEncrypt([]byte(keyText), p) // key text taken as the raw key (24 or 32 characters)
		switch {
		case encB64 == documented:
			st.Class("ecb/base64-variant/key-decoded-as-documented")
		case len(keyText) <= 32 && quirkCT != nil && encB64 == b64(quirkCT):
			st.Class("ecb/observed:base64-variant-took-the-base64-key-text-as-the-raw-key")
		default:
			fail("EcbEncryptBase64(base64(key), base64(p)) = %q, want base64(EcbEncrypt(key, p)) = %q", clipBytes([]byte(encB64), 64), clipBytes([]byte(documented), 64))
		}
		if keyLen == 32 && encB64 != documented {
			fail("EcbEncryptBase64 with a base64 encoded 32-byte key = %q, want base64(EcbEncrypt(key, p)) = %q", clipBytes([]byte(encB64), 64), clipBytes([]byte(documented), 64))
		}
		decB64, err := codec.EcbDecryptBase64(keyText, encB64)
		if err != nil {
			fail("EcbDecryptBase64(EcbEncryptBase64(p)): %v", err)
		}
		if decB64 != b64(p) {
			fail("EcbDecryptBase64(EcbEncryptBase64(base64(p))) = %q, want base64(p)", clipBytes([]byte(decB64), 64))
		}
		if keyLen == 32 {
			d2, err := codec.EcbDecryptBase64(keyText, b64(ct))
			if err != nil || d2 != b64(p) {
				fail("EcbDecryptBase64(base64(key), base64(EcbEncrypt(key, p))) = %q, %v; want base64(p)", clipBytes([]byte(d2), 64), err)
			}
		}

		// garbage / wrong-length input: an error or bytes, never a panic; input the reference
		// decodes must decode to the same plaintext
		nontrivial := len(p)%16 == 0 || len(p) > 16
		if rapid.Bool().Draw(t, "garbage") {
			n := rapid.SampledFrom(garbageLen).Draw(t, "garbageLen")
			var g []byte
			switch rapid.IntRange(0, 2).Draw(t, "garbageKind") {
			case 0:
				g = rapid.SliceOfN(rapid.Byte(), n, n).Draw(t, "garbageBytes")
			case 1: // a prefix / extension of a real ciphertext
				g = append(append([]byte{}, ct...), bytes.Repeat([]byte{7}, n)...)
				if cut := rapid.IntRange(0, len(g)).Draw(t, "cut"); cut < len(g) && rapid.Bool().Draw(t, "doCut") {
					g = g[:cut]
				}
			default: // whole blocks whose last block decrypts to a chosen tail
				raw := rapid.SliceOfN(rapid.Byte(), 16, 16).Draw(t, "lastRaw")
				raw[15] = byte(rapid.SampledFrom([]int{0, 1, 2, 16, 17, 255}).Draw(t, "padByte"))
				g = verifc18.ECBRawEncrypt(key, raw)
			}
			if len(g) == 0 && skipEmpty {
				st.Excluded()
				return
			}
			desc += fmt.Sprintf(" garbage=%dB %x", len(g), clipBytes(g, 48))
			var out []byte
			var derr error
			panicked := func() (s string) {
				defer func() {
					if r := recover(); r != nil {
						s = fmt.Sprint(r)
					}
				}()
				out, derr = codec.EcbDecrypt(key, g)
				return ""
			}()
			if panicked != "" {
				fail("EcbDecrypt of a %d-byte input panicked: %s", len(g), panicked)
			}
			cls := "bytes"
			if derr != nil {
				cls = "error"
			}
			wholeBlocks := len(g) > 0 && len(g)%16 == 0
			st.Class(fmt.Sprintf("ecb/garbage/whole-blocks=%v/%s", wholeBlocks, cls))
			if wholeBlocks {
				if refP, rerr := verifc18.ECBDecrypt(key, g); rerr == nil {
					if derr != nil || !bytes.Equal(out, refP) {
						fail("EcbDecrypt = (%x, %v) for an input the reference decoder decodes to %x", clipBytes(out, 40), derr, clipBytes(refP, 40))
					}
					st.Class("ecb/garbage/reference-decodes")
				} else if derr == nil {
					// lenient unpadding: whatever the rule, the result is the block-wise
					// decryption less at most one block
					raw := verifc18.ECBRawDecrypt(key, g)
					if len(out) > len(raw) || len(out) < len(raw)-16 || !bytes.Equal(out, raw[:len(out)]) {
						fail("EcbDecrypt returned %dB %x without an error, which is not the block-wise decryption %x less at most one block", len(out), clipBytes(out, 40), clipBytes(raw, 40))
					}
				}
			}
			nontrivial = true
		}
		if nontrivial {
			st.NonTrivial(desc)
		}
	})
}

func clipBytes(b []byte, n int) []byte {
	if len(b) > n {
		return b[:n]
	}
	return b
}
