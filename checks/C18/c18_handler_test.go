//go:build verif

package handler_test

import (
	"fmt"
	"net/http"
	"sync"
	"testing"
	"time"

	"github.com/zeromicro/go-zero/core/codec"
	"github.com/zeromicro/go-zero/core/logx"
	"github.com/zeromicro/go-zero/internal/verifc18"
	"github.com/zeromicro/go-zero/internal/verifkit"
	"github.com/zeromicro/go-zero/rest/handler"
	"pgregory.net/rapid"
)

// Property C18 against the middlewares of rest/handler themselves.  Generators, reference
// verifiers and the oracles are in internal/verifc18 (c18kit.go), shared with the
// rest-engine binary.

func buildAuthorize(secret, prev string, cb verifc18.UnauthorizedCallback, inner http.Handler) http.Handler {
	var opts []handler.AuthorizeOption
	if prev != "" {
		opts = append(opts, handler.WithPrevSecret(prev))
	}
	if cb != nil {
		opts = append(opts, handler.WithUnauthorizedCallback(cb))
	}
	return handler.Authorize(secret, opts...)(inner)
}

var (
	decMu    sync.Mutex
	decCache = map[string]codec.RsaDecrypter{}
)

func decrypterFor(file string) codec.RsaDecrypter {
	decMu.Lock()
	defer decMu.Unlock()
	if d, ok := decCache[file]; ok {
		return d
	}
	d, err := codec.NewRsaDecrypter(file)
	if err != nil {
		panic("codec.NewRsaDecrypter(" + file + "): " + err.Error())
	}
	decCache[file] = d
	return d
}

func buildContentSecurity(conf verifc18.CSConf, keyFiles map[string]string, _ []verifc18.Route, inner http.Handler) http.Handler {
	decs := map[string]codec.RsaDecrypter{}
	for fp, f := range keyFiles {
		decs[fp] = decrypterFor(f)
	}
	tol := time.Duration(conf.TolSec) * time.Second
	if conf.TolSec%20 == 10 { // both public constructors are used
		return handler.LimitContentSecurityHandler(0, decs, tol, true)(inner)
	}
	return handler.ContentSecurityHandler(decs, tol, true)(inner)
}

func codecEncrypt(pubPEM, msg []byte) ([]byte, error) {
	enc, err := codec.NewRsaEncrypter(pubPEM)
	if err != nil {
		return nil, err
	}
	return enc.Encrypt(msg)
}

func buildCryption(key []byte, inner http.Handler) http.Handler {
	return handler.CryptionHandler(key)(inner)
}

func emptyPayloadKnown() bool {
	return verifkit.KnownFindings("C18")[verifc18.KnownEmptyPayload]
}

func unknownLengthKnown() bool {
	return verifkit.KnownFindings("C18")[verifc18.KnownUnknownLength]
}

func csOptions() verifc18.CSGenOpt {
	return verifc18.CSGenOpt{ExcludeEmptyEncrypted: emptyPayloadKnown(), ExcludeUnknownLenEncrypted: unknownLengthKnown(),
		CodecEncrypt: codecEncrypt}
}

func TestVerifC18JWT(t *testing.T) {
	logx.Disable()
	st := verifkit.New("jwt")
	defer st.Flush()
	rapid.Check(t, func(t *rapid.T) {
		st.Eval()
		verifc18.RunJWTCase(t, st, 1, buildAuthorize)
	})
}

func TestVerifC18ContentSecurity(t *testing.T) {
	logx.Disable()
	env, err := verifc18.GetEnv()
	if err != nil {
		t.Fatalf("rsa setup: %v", err)
	}
	st := verifkit.New("content-security")
	defer st.Flush()
	opt := csOptions()
	rapid.Check(t, func(t *rapid.T) {
		st.Eval()
		verifc18.RunCSCase(t, st, env, opt, buildContentSecurity)
	})
}

// The same property with every request travelling through a real HTTP server
// (httptest.NewServer + http.Client): bodies of unknown length go out with
// Transfer-Encoding: chunked, so r.ContentLength is what net/http really reports.
func TestVerifC18ContentSecurityWire(t *testing.T) {
	logx.Disable()
	env, err := verifc18.GetEnv()
	if err != nil {
		t.Fatalf("rsa setup: %v", err)
	}
	st := verifkit.New("content-security-wire")
	defer st.Flush()
	opt := csOptions()
	opt.Wire = verifc18.NewWireTarget()
	defer opt.Wire.Close()
	rapid.Check(t, func(t *rapid.T) {
		st.Eval()
		verifc18.RunCSCase(t, st, env, opt, buildContentSecurity)
	})
}

func TestVerifC18Cryption(t *testing.T) {
	logx.Disable()
	st := verifkit.New("cryption")
	defer st.Flush()
	known, knownLen := emptyPayloadKnown(), unknownLengthKnown()
	rapid.Check(t, func(t *rapid.T) {
		st.Eval()
		verifc18.RunCryptCase(t, st, known, knownLen, buildCryption)
	})
}

// Regression (FINDINGS.md, D12): an empty payload, encrypted as the protocol says
// (one block of PKCS#7 padding), must reach the handler as an empty body.  Shrunk from
// TestVerifC18Cryption / TestVerifC18ContentSecurity.
func TestVerifC18RegressEmptyPayloadCryption(t *testing.T) {
	logx.Disable()
	st := verifkit.New("regress-empty-payload-cryption")
	defer st.Flush()
	st.Eval()
	c := verifc18.CryptCase{Key: []byte("0123456789abcdef"), Payload: nil, Resp: []byte("pong"), Chunks: 1, SendBody: true}
	st.Sample("CryptionHandler(16-byte key): POST body = base64(AES-ECB(PKCS7(empty payload))), handler writes \"pong\"")
	problem, defect := verifc18.CheckCrypt(c, buildCryption)
	reportKnownOrFail(t, st, problem, defect)
}

func TestVerifC18RegressEmptyPayloadSigned(t *testing.T) {
	logx.Disable()
	env, err := verifc18.GetEnv()
	if err != nil {
		t.Fatalf("rsa setup: %v", err)
	}
	st := verifkit.New("regress-empty-payload-signed")
	defer st.Flush()
	st.Eval()
	conf := verifc18.CSConf{TolSec: 3600, FpA: "fp-a", FpB: "fp-b"}
	req, err := verifc18.BuildCSReq(env, conf, time.Now().Unix(), http.MethodPost, "/a", "", nil,
		[]byte("0123456789abcdef"), true, []byte("pong"))
	if err != nil {
		t.Fatal(err)
	}
	st.Sample("strict content security, tolerance 1h: " + req.Desc + " (empty payload sent encrypted)")
	probe := &verifc18.Probe{}
	gate := buildContentSecurity(conf, map[string]string{conf.FpA: env.A.PrivFile, conf.FpB: env.B.PrivFile}, nil, probe)
	problem, defect, inconclusive := verifc18.SendCS(env, conf, gate, probe, req, nil, nil)
	if inconclusive {
		st.Note("regression request took more than 3 s (inconclusive)")
		return
	}
	reportKnownOrFail(t, st, problem, defect)
}

// Regression (FINDINGS.md, D19): an encrypted body sent without a declared length
// (ContentLength == -1, Transfer-Encoding: chunked on the wire) must reach the handler
// decrypted, like the same bytes sent with a Content-Length.  Shrunk from
// TestVerifC18Cryption / TestVerifC18ContentSecurity.
func TestVerifC18RegressUnknownLengthCryption(t *testing.T) {
	logx.Disable()
	st := verifkit.New("regress-unknown-length-cryption")
	defer st.Flush()
	for _, shape := range []string{verifc18.ShapeSized, verifc18.ShapeUnknown, verifc18.ShapeUnknown1} {
		st.Eval()
		c := verifc18.CryptCase{Key: []byte("0123456789abcdef"), Payload: []byte("ping"), Resp: []byte("pong"), Chunks: 1, SendBody: true, Shape: shape}
		st.Sample("CryptionHandler(16-byte key): POST body = base64(AES-ECB(PKCS7(\"ping\"))) sent " + shape)
		problem, defect := verifc18.CheckCrypt(c, buildCryption)
		reportKnownOrFail(t, st, problem, defect)
	}
}

func TestVerifC18RegressUnknownLengthSigned(t *testing.T) {
	logx.Disable()
	env, err := verifc18.GetEnv()
	if err != nil {
		t.Fatalf("rsa setup: %v", err)
	}
	st := verifkit.New("regress-unknown-length-signed")
	defer st.Flush()
	conf := verifc18.CSConf{TolSec: 3600, FpA: "fp-a", FpB: "fp-b"}
	for _, encrypted := range []bool{false, true} {
		for _, shape := range []string{verifc18.ShapeSized, verifc18.ShapeUnknown, verifc18.ShapeUnknown1} {
			st.Eval()
			req, err := verifc18.BuildCSReq(env, conf, time.Now().Unix(), http.MethodPost, "/a", "x=1", []byte("ping"),
				[]byte("0123456789abcdef"), encrypted, []byte("pong"))
			if err != nil {
				t.Fatal(err)
			}
			req.Shape = shape
			req.UnknownLenEncrypted = encrypted && shape != verifc18.ShapeSized
			st.Sample("strict content security, tolerance 1h: " + req.Desc + " sent " + shape)
			probe := &verifc18.Probe{}
			gate := buildContentSecurity(conf, map[string]string{conf.FpA: env.A.PrivFile, conf.FpB: env.B.PrivFile}, nil, probe)
			problem, defect, inconclusive := verifc18.SendCS(env, conf, gate, probe, req, nil, nil)
			if inconclusive {
				st.Note("regression request took more than 3 s (inconclusive)")
				continue
			}
			reportKnownOrFail(t, st, problem, defect)
		}
	}
}

// Regression for the class "body digest computed from something else than the bytes the
// handler will read" (seeded change C18a): the signature of a body-less request, replayed
// with a body under every transport shape, and the signature of a request with a body
// replayed without one, must be refused with 403 and the handler must not run.
func TestVerifC18RegressReplayWithOtherBody(t *testing.T) {
	logx.Disable()
	env, err := verifc18.GetEnv()
	if err != nil {
		t.Fatalf("rsa setup: %v", err)
	}
	st := verifkit.New("regress-replay-other-body")
	defer st.Flush()
	conf := verifc18.CSConf{TolSec: 3600, FpA: "fp-a", FpB: "fp-b"}
	evil := []byte(`{"transfer":"everything","to":"mallory"}`)
	for _, method := range []string{http.MethodGet, http.MethodPost, http.MethodPut, http.MethodDelete} {
		for _, signedBody := range [][]byte{nil, []byte("hello")} {
			for _, shape := range []string{verifc18.ShapeSized, verifc18.ShapeUnknown, verifc18.ShapeUnknown1} {
				st.Eval()
				req, err := verifc18.BuildCSReq(env, conf, time.Now().Unix(), method, "/a/b", "c=d&e=f", signedBody,
					[]byte("0123456789abcdef"), false, []byte("pong"))
				if err != nil {
					t.Fatal(err)
				}
				// replay the captured header with another body
				req.Pristine, req.WantValid, req.Mut, req.Shape = false, false, "body-replay", shape
				if signedBody == nil {
					req.Body = evil
				} else {
					req.Body = nil
				}
				st.Sample(fmt.Sprintf("%s /a/b?c=d&e=f signed with a %d-byte body, replayed with a %d-byte body sent %s", method, len(signedBody), len(req.Body), shape))
				probe := &verifc18.Probe{}
				gate := buildContentSecurity(conf, map[string]string{conf.FpA: env.A.PrivFile, conf.FpB: env.B.PrivFile}, nil, probe)
				problem, _, inconclusive := verifc18.SendCS(env, conf, gate, probe, req, nil, nil)
				if inconclusive {
					st.Note("regression request took more than 3 s (inconclusive)")
					continue
				}
				if problem != "" {
					t.Fatalf("C18: %s", problem)
				}
			}
		}
	}
}

func reportKnownOrFail(t *testing.T, st *verifkit.Stats, problem, defect string) {
	t.Helper()
	if problem == "" {
		return
	}
	switch {
	case defect == verifc18.KnownEmptyPayload && emptyPayloadKnown():
		st.KnownFinding(defect, "empty payload encrypted by the client is answered 400 instead of reaching the handler (pkcs5Unpadding rejects a full block of padding)")
		return
	case defect == verifc18.KnownUnknownLength && unknownLengthKnown():
		st.KnownFinding(defect, "encrypted body sent with unknown length (chunked) reaches the handler undecrypted (ContentLength <= 0 is taken for 'no body')")
		return
	}
	t.Fatalf("C18: %s", problem)
}

// Plain regressions for forgeries every version must refuse (cheap, run first).
func TestVerifC18RegressForgeries(t *testing.T) {
	logx.Disable()
	st := verifkit.New("regress-forgeries")
	defer st.Flush()
	probe := &verifc18.Probe{}
	gate := buildAuthorize("current-secret", "", nil, probe)
	unsigned := "eyJhbGciOiJub25lIiwidHlwIjoiSldUIn0.eyJ1aWQiOjF9." // {"alg":"none","typ":"JWT"}.{"uid":1}.
	for _, auth := range []string{
		"",
		"Bearer ",
		"Bearer " + unsigned,
		// signed with the empty key (no previous secret is configured)
		"Bearer " + verifc18.SignJWT([]byte(`{"alg":"HS256","typ":"JWT"}`), []byte(`{"uid":1}`), "HS256", nil),
		// RS256 header, HMAC bytes
		"Bearer " + verifc18.SignJWT([]byte(`{"alg":"RS256","typ":"JWT"}`), []byte(`{"uid":1}`), "HS256", []byte("current-secret")),
		// expired
		"Bearer " + verifc18.SignJWT([]byte(`{"alg":"HS256","typ":"JWT"}`), []byte(`{"uid":1,"exp":1000000000}`), "HS256", []byte("current-secret")),
	} {
		st.Eval()
		st.Sample("forgery: Authorization=" + auth)
		if v := verifc18.RefJWT(auth, [][]byte{[]byte("current-secret")}, time.Now().Unix()); v.Accept {
			t.Fatalf("reference accepts forgery %q", auth)
		}
		hr, _ := http.NewRequest(http.MethodGet, "http://c18.test/p", http.NoBody)
		if auth != "" {
			hr.Header.Set("Authorization", auth)
		}
		probe.Reset(nil, 1, false)
		rec := newRecorder()
		gate.ServeHTTP(rec, hr)
		if probe.Ran != 0 || rec.code != http.StatusUnauthorized {
			t.Fatalf("forgery %q: handlerRan=%d status=%d, want not run and 401", auth, probe.Ran, rec.code)
		}
	}
}

type recorder struct {
	h    http.Header
	code int
}

func newRecorder() *recorder                    { return &recorder{h: http.Header{}, code: 200} }
func (r *recorder) Header() http.Header         { return r.h }
func (r *recorder) Write(b []byte) (int, error) { return len(b), nil }
func (r *recorder) WriteHeader(c int)           { r.code = c }
