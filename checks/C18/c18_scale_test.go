//go:build verif

package handler_test

import (
	"bytes"
	"encoding/base64"
	"encoding/json"
	"fmt"
	"io"
	"math"
	"net/http"
	"net/http/httptest"
	"sort"
	"strconv"
	"strings"
	"testing"
	"time"

	"github.com/zeromicro/go-zero/core/logx"
	"github.com/zeromicro/go-zero/internal/verifc18"
	"github.com/zeromicro/go-zero/internal/verifkit"
	"pgregory.net/rapid"
)

// Unit scale of property C18: LARGE credentials and bodies.
//
// Everything the other units generate is small (bodies and payloads of at most 6000 bytes,
// tokens of a few hundred bytes).  The three properties of this file send
//
//   - signed (strict content security, plain and encrypted mode) requests whose body is
//     6 KB - 8 MiB, presented 1-3 times through one gate, pristine and with ONE mutation at
//     a drawn offset over the whole body (first byte, inside, last byte, one byte appended,
//     tail truncated; or the query / the method changed), with and without a declared
//     length, in process and through a real HTTP server (Transfer-Encoding: chunked) -
//     TestVerifC18ScaleSigned;
//   - encrypted requests and responses of that size through the cryption middleware (alone
//     and behind the content-security gate), valid or with one mutation of the base64 text /
//     the ciphertext at a drawn offset, under every body limit, with handlers that read in
//     pieces and write the response in several large chunks - TestVerifC18ScaleCryption;
//   - JWTs whose payload is 640 B - 256 KiB (1-2000 claims, long strings), presented 1-5
//     times through the same gate, pristine and with a one-byte mutation at a drawn offset of
//     the payload or the signature segment - TestVerifC18ScaleJWT.
//
// Sizes are log-uniform and are not tuned to any threshold of the code under test: one
// case in VERIF_C18_SCALE_ONE_IN (JWT: two) is "large" (bodies 64 KiB - 8 MiB, JWT payloads
// 8 - 256 KiB), the others are "medium" (between the largest size of the small generators
// and the lower end of the large range).  The oracles are the existing ones of
// internal/verifc18: RefCS / SendCS (signature over timestamp, method, path, query and the
// digest of the WHOLE body), RefDecodeBody / CheckPaths (reference AES-ECB/PKCS#7 client)
// and RefJWT.

const (
	scaleSmallBody = 6000 // the largest body / payload the small generators draw (verifc18.genBytes)
	scaleBodyLo    = 64 << 10
	scaleBodyHi    = 8 << 20
	scaleBodyNT    = 100 * scaleSmallBody // non-trivial: at least 100x the largest small body

	scaleSmallJWT = 640 // bound taken for the JWT payloads of the small generator: the largest of 200 000 GenJWTReq cases was 342 bytes (mean 76)
	scaleJWTLo    = 8 << 10
	scaleJWTHi    = 256 << 10
	scaleJWTNT    = 100 * scaleSmallJWT
)

func scaleOneIn() int {
	n := verifkit.EnvInt("c18_scale_one_in", 10)
	if n < 1 {
		n = 1
	}
	return n
}

// scaleUnit draws a number of [0, 1) with 24 fair coin flips.  (rapid's integer generators
// prefer small values by design; sizes and offsets of this unit must not.)
func scaleUnit(t *rapid.T, label string) float64 {
	k := 0
	for _, b := range rapid.SliceOfN(rapid.Bool(), 24, 24).Draw(t, label) {
		k <<= 1
		if b {
			k |= 1
		}
	}
	return float64(k) / float64(1<<24)
}

// scaleLogUniform draws an integer of [lo, hi], uniform in its logarithm.
func scaleLogUniform(t *rapid.T, label string, lo, hi int) int {
	if hi <= lo {
		return lo
	}
	v := float64(lo) * math.Pow(float64(hi+1)/float64(lo), scaleUnit(t, label))
	n := int(v)
	if n < lo {
		n = lo
	}
	if n > hi {
		n = hi
	}
	return n
}

// scaleSize draws a size: large (lo..hi) in one case of VERIF_C18_SCALE_ONE_IN, medium
// (small..lo) otherwise; in one case of four it is moved to the nearest power of two, one
// below or one above it (no particular one: whichever is nearest to the drawn size).
func scaleSize(t *rapid.T, label string, small, lo, hi int) (n int, large bool) {
	return scaleSizeW(t, label, small, lo, hi, 1)
}

// scaleSizeW: large in w cases of VERIF_C18_SCALE_ONE_IN (cheap cases can afford w > 1).
func scaleSizeW(t *rapid.T, label string, small, lo, hi, w int) (n int, large bool) {
	oneIn := scaleOneIn()
	large = rapid.IntRange(0, oneIn-1).Draw(t, label+".largeIfMax") >= oneIn-w
	if large {
		n = scaleLogUniform(t, label+".size", lo, hi)
	} else {
		n = scaleLogUniform(t, label+".size", small, lo)
	}
	if snap := rapid.IntRange(0, 11).Draw(t, label+".snap"); snap >= 9 {
		p := 1 << uint(math.Round(math.Log2(float64(n))))
		p += snap - 10 // -1, 0, +1
		if (large && p >= lo && p <= hi) || (!large && p >= small && p <= lo) {
			n = p
		}
	}
	return n, large
}

// scaleOffset draws a position of [0, n): uniform, at a log-uniform distance from the
// start, or at a log-uniform distance from the end.
func scaleOffset(t *rapid.T, label string, n int) int {
	if n <= 1 {
		return 0
	}
	switch rapid.IntRange(0, 2).Draw(t, label+".from") {
	case 0:
		p := int(scaleUnit(t, label) * float64(n))
		if p > n-1 {
			p = n - 1
		}
		return p
	case 1:
		return scaleLogUniform(t, label, 1, n) - 1
	}
	return n - scaleLogUniform(t, label, 1, n)
}

func scaleMix(x uint64) uint64 {
	x += 0x9e3779b97f4a7c15
	z := x
	z = (z ^ (z >> 30)) * 0xbf58476d1ce4e5b9
	z = (z ^ (z >> 27)) * 0x94d049bb133111eb
	return z ^ (z >> 31)
}

// scaleBytes builds n bytes from a few draws (a large case is not one draw per byte):
// numbered text records, one repeated byte that looks like PKCS#7 padding, or the
// splitmix64 stream of a drawn seed.
func scaleBytes(t *rapid.T, label string, n int) ([]byte, string) {
	if n == 0 {
		return nil, "empty"
	}
	switch kind := rapid.SampledFrom([]string{"text", "fill", "stream", "stream"}).Draw(t, label+".kind"); kind {
	case "text":
		b := make([]byte, 0, n+40)
		for i := 0; len(b) < n; i++ {
			b = append(b, `{"i":`...)
			b = strconv.AppendInt(b, int64(i), 10)
			b = append(b, `,"v":"scale"}`...)
			b = append(b, '\n')
		}
		return b[:n], "text"
	case "fill":
		c := byte(rapid.IntRange(0, 16).Draw(t, label+".fill"))
		return bytes.Repeat([]byte{c}, n), fmt.Sprintf("fill(%d)", c)
	}
	seed := rapid.Uint64().Draw(t, label+".seed")
	b := make([]byte, n)
	x := seed
	for i := 0; i < n; i += 8 {
		x += 0x9e3779b97f4a7c15
		z := scaleMix(x)
		for j := 0; j < 8 && i+j < n; j++ {
			b[i+j] = byte(z >> (8 * uint(j)))
		}
	}
	return b, fmt.Sprintf("stream(%x)", seed)
}

func b64std(b []byte) string { return base64.StdEncoding.EncodeToString(b) }

func scaleFP(b []byte) string {
	h := uint64(14695981039346656037)
	for _, c := range b {
		h = (h ^ uint64(c)) * 1099511628211
	}
	return fmt.Sprintf("%dB#%016x", len(b), h)
}

func scaleLog2(n int) string {
	if n <= 0 {
		return "2^-"
	}
	return fmt.Sprintf("2^%02d", int(math.Floor(math.Log2(float64(n)))))
}

// drainAfter reads what the gate left of the request body once the gate has returned, so
// that over the wire the client is never cut off while it is still sending a large body
// (a refusal that does not consume the body is then an ordinary response, not a reset).
func drainAfter(gate http.Handler) http.Handler {
	return http.HandlerFunc(func(w http.ResponseWriter, r *http.Request) {
		orig := r.Body
		defer func() {
			if orig != nil {
				io.Copy(io.Discard, orig)
			}
		}()
		gate.ServeHTTP(w, r)
	})
}

var (
	scaleShapes     = []string{verifc18.ShapeSized, verifc18.ShapeSized, verifc18.ShapeSized, verifc18.ShapeUnknown, verifc18.ShapeUnknown, verifc18.ShapeUnknown, verifc18.ShapeUnknown1}
	scaleShapesWire = []string{verifc18.ShapeSized, verifc18.ShapeUnknown}
	scaleQueries    = []string{"", "a=1", "a=1&b=2", "q=hello%20world", "t=1790000000"}
)

// scaleLimit draws the body limit of the gate: < 0 the constructor without a limit
// argument (1 MiB), 0 none, else the limit in bytes.
func scaleLimit(t *rapid.T, wireLen int, kinds []string) (int64, string) {
	k := rapid.SampledFrom(kinds).Draw(t, "limit")
	w := int64(wireLen)
	var l int64
	switch k {
	case "default":
		return -1, k
	case "none":
		return 0, k
	case "wire":
		l = w
	case "wire+1":
		l = w + 1
	case "wire-1":
		l = w - 1
	case "half":
		l = w / 2
	case "double":
		l = 2 * w
	}
	if l < 1 {
		l = 1
	}
	return l, k
}

const scaleDefaultLimit = 1 << 20 // the constructors without a limit argument

// knownUnknownLengthTruncation: finding C18-F3 (FINDINGS.md: an encrypted body of unknown
// length whose base64 text is longer than 1 MiB is cut at 1 MiB whatever the configured
// limit is, and the prefix is decrypted) may be listed as known in known_findings.json; its
// signature (encrypted body, no declared length, more than 1 MiB on the wire) is then not
// generated.  VERIF_C18_SCALE_EXCLUDE_F3=1 has the same effect; it exists for the
// sensitivity experiments of SENSITIVITY.md (a mutant must not be masked by the finding) and
// is never set by check.json.
const knownUnknownLengthTruncation = "C18-F3"

func unknownLengthTruncationKnown() bool {
	return verifkit.KnownFindings("C18")[knownUnknownLengthTruncation]
}

func excludeUnknownLengthTruncation() bool {
	return unknownLengthTruncationKnown() || verifkit.EnvInt("c18_scale_exclude_f3", 0) == 1
}

// Regression (FINDINGS.md, C18-F3), shrunk from TestVerifC18ScaleSigned /
// TestVerifC18ScaleCryption: an encrypted body sent without a declared length whose base64
// text is longer than 1 MiB.  (a) under a limit that admits it, it must reach the handler
// decrypted like the same bytes sent with a Content-Length; (b) whatever the limit is, a
// handler that runs must read the whole plaintext, not the decryption of a prefix.
func TestVerifC18ScaleRegressUnknownLengthOverMiB(t *testing.T) {
	logx.Disable()
	env, err := verifc18.GetEnv()
	if err != nil {
		t.Fatalf("rsa setup: %v", err)
	}
	st := verifkit.New("scale-regress-unknown-length-over-1MiB")
	defer st.Flush()
	key := []byte("0123456789abcdef")
	text := bytes.Repeat([]byte(`{"k":"v"} `), 78670)[:786697] // base64(AES(..)) is 1048940 bytes: 364 more than 1 MiB
	fill := bytes.Repeat([]byte{1}, 800000)                    // every plaintext block ends like valid PKCS#7 padding
	plan := verifc18.RespPlan{Read: "all", Chunks: [][]byte{[]byte("pong")}, FlushAfter: []bool{false}}
	reported := false
	for _, c := range []verifc18.PathsCase{
		{Gate: "cs", Limit: 0, Shape: verifc18.ShapeSized, BodyDesc: "text 786697B"},
		{Gate: "cs", Limit: 0, Shape: verifc18.ShapeUnknown, BodyDesc: "text 786697B"},
		{Gate: "bare", Limit: 4 << 20, Shape: verifc18.ShapeUnknown, BodyDesc: "text 786697B"},
		{Gate: "bare", Limit: -1, Shape: verifc18.ShapeUnknown, BodyDesc: "fill(1) 800000B"},
		{Gate: "cs", Limit: -1, Shape: verifc18.ShapeUnknown1, BodyDesc: "fill(1) 800000B"},
	} {
		st.Eval()
		payload := text
		if strings.HasPrefix(c.BodyDesc, "fill") {
			payload = fill
		}
		ct, err := verifc18.ECBEncrypt(key, payload)
		if err != nil {
			t.Fatal(err)
		}
		c.Key, c.Wire, c.BodyKind, c.Plan = key, []byte(b64std(ct)), "valid", plan
		c.Method, c.Path, c.Conf = http.MethodPost, "/a", verifc18.CSConf{TolSec: 3600, FpA: "fp-a", FpB: "fp-b"}
		st.Sample(c.String())
		_, problem, _, inconclusive := verifc18.CheckPaths(env, c, pathsBuild(), nil)
		if inconclusive {
			st.Note("scale regression: the signature's time window moved in flight (inconclusive)")
			continue
		}
		if problem == "" {
			continue
		}
		if c.Shape != verifc18.ShapeSized && !unknownLengthTruncationKnown() && excludeUnknownLengthTruncation() {
			st.Note("scale regression: C18-F3 reproduced and ignored (VERIF_C18_SCALE_EXCLUDE_F3=1, sensitivity experiment)")
			continue
		}
		if c.Shape != verifc18.ShapeSized && unknownLengthTruncationKnown() {
			if !reported {
				reported = true
				st.KnownFinding(knownUnknownLengthTruncation, "an encrypted body of unknown length (chunked) longer than 1 MiB is cut at 1 MiB whatever the configured limit is: refused with 400 under a limit that admits it, or its prefix reaches the handler as if it were the whole payload")
			}
			continue
		}
		t.Errorf("C18 (regression, FINDINGS.md C18-F3): %s", problem)
	}
}

// ------------------------------------------------------------------ signed requests

// mutateBody applies one mutation at a drawn offset over the whole body.
func scaleMutateBody(t *rapid.T, body []byte, kind string) ([]byte, string) {
	b := append([]byte(nil), body...)
	switch kind {
	case "flip-first", "flip-inside", "flip-last":
		pos := 0
		switch kind {
		case "flip-inside":
			pos = scaleOffset(t, "bodyPos", len(b))
		case "flip-last":
			pos = len(b) - 1
		}
		x := byte(rapid.IntRange(1, 255).Draw(t, "bodyXor"))
		b[pos] ^= x
		return b, fmt.Sprintf("body[%d of %d]^=%#x", pos, len(b), x)
	case "append":
		c := rapid.SampledFrom([]byte("A=\n\x00 }")).Draw(t, "bodyAppend")
		return append(b, c), fmt.Sprintf("body+%q", c)
	case "truncate":
		n := 1
		if rapid.IntRange(0, 2).Draw(t, "truncMany") == 0 {
			n = scaleLogUniform(t, "truncBy", 1, len(b))
		}
		return b[:len(b)-n], fmt.Sprintf("body-%dB", n)
	}
	return b, ""
}

func TestVerifC18ScaleSigned(t *testing.T) {
	logx.Disable()
	env, err := verifc18.GetEnv()
	if err != nil {
		t.Fatalf("rsa setup: %v", err)
	}
	st := verifkit.New("scale-signed")
	defer st.Flush()
	wire := verifc18.NewWireTarget()
	defer wire.Close()
	build := pathsBuild()
	excludeF3 := excludeUnknownLengthTruncation()
	rapid.Check(t, func(t *rapid.T) {
		st.Eval()
		size, large := scaleSize(t, "payload", scaleSmallBody, scaleBodyLo, scaleBodyHi)
		payload, payKind := scaleBytes(t, "payload", size)
		encrypted := rapid.Bool().Draw(t, "encrypted")
		keyLen := rapid.SampledFrom([]int{16, 24, 32}).Draw(t, "keyLen")
		key := rapid.SliceOfN(rapid.Byte(), keyLen, keyLen).Draw(t, "aesKey")
		method := rapid.SampledFrom([]string{http.MethodPost, http.MethodPost, http.MethodPut, http.MethodGet, http.MethodDelete}).Draw(t, "method")
		path := "/scale/" + rapid.SampledFrom([]string{"a", "orders", "v1/users"}).Draw(t, "path")
		query := rapid.SampledFrom(scaleQueries).Draw(t, "query")
		conf := verifc18.CSConf{TolSec: rapid.SampledFrom([]int64{60, 3600, 86400}).Draw(t, "toleranceSec"), FpA: "fp-a", FpB: "fp-b"}

		// the response: small, or (encrypted mode: through the encrypting writer) of scale size
		respSize := rapid.SampledFrom([]int{0, 1, 16, 100, 1000}).Draw(t, "respSmall")
		respLarge := false
		if encrypted && rapid.IntRange(0, 2).Draw(t, "respScale") == 0 {
			respSize, respLarge = scaleSize(t, "resp", scaleSmallBody, scaleBodyLo, scaleBodyHi)
		}
		resp, respKind := scaleBytes(t, "resp", respSize)

		req, err := verifc18.BuildCSReq(env, conf, time.Now().Unix(), method, path, query, payload, key, encrypted, resp)
		if err != nil {
			t.Fatalf("generator bug: %v", err)
		}
		req.RespChunks = rapid.IntRange(1, 4).Draw(t, "respChunks")

		limitKinds := []string{"default", "none"}
		if encrypted {
			// the pristine request must be admitted: liveness is asserted for it
			limitKinds = []string{"none", "none", "wire", "wire+1", "double"}
			if len(req.Body) <= scaleDefaultLimit {
				limitKinds = append(limitKinds, "default", "default")
			}
		}
		limit, limitKind := scaleLimit(t, len(req.Body), limitKinds)
		probe := &verifc18.Probe{}
		keyFiles := map[string]string{conf.FpA: env.A.PrivFile, conf.FpB: env.B.PrivFile}
		gate := build.CS(limit, conf, keyFiles, probe)
		gateWire := drainAfter(gate)

		var logb strings.Builder
		fmt.Fprintf(&logb, "strict content security tolerance=%ds limit=%s(%d): %s %s?%s type(encrypted)=%v key=%dB payload=%s %s body-on-wire=%s resp=%s %s/%d chunks",
			conf.TolSec, limitKind, limit, method, path, query, encrypted, len(key), payKind, scaleFP(payload), scaleFP(req.Body), respKind, scaleFP(resp), req.RespChunks)

		n := rapid.IntRange(1, 3).Draw(t, "presentations")
		judged := 0
		for i := 0; i < n; i++ {
			mut := rapid.SampledFrom([]string{"none", "none", "none", "flip-first", "flip-inside", "flip-inside", "flip-inside",
				"flip-last", "flip-last", "append", "truncate", "truncate", "query", "method"}).Draw(t, fmt.Sprintf("mutation[%d]", i))
			if i == 0 && n > 1 && rapid.Bool().Draw(t, "pristineFirst") {
				mut = "none" // the genuine request first, its mutations afterwards
			}
			overWire := rapid.IntRange(0, 3).Draw(t, fmt.Sprintf("wire[%d]", i)) == 0
			shapes := scaleShapes
			if overWire {
				shapes = scaleShapesWire
			}
			r := req
			r.Shape = rapid.SampledFrom(shapes).Draw(t, fmt.Sprintf("shape[%d]", i))
			detail := ""
			switch mut {
			case "none":
			case "query":
				r.Query = req.Query + "&admin=1"
				if req.Query == "" {
					r.Query = "admin=1"
				}
				detail = r.Query
			case "method":
				r.Method = http.MethodPut
				if req.Method == http.MethodPut {
					r.Method = http.MethodPost
				}
				detail = r.Method
			default:
				r.Body, detail = scaleMutateBody(t, req.Body, mut)
			}
			if mut != "none" {
				r.Pristine, r.WantValid, r.Mut = false, false, mut
			}
			transport := "in-process"
			if overWire {
				transport = "wire"
			}
			fmt.Fprintf(&logb, "\n  #%d mut=%s(%s) shape=%s %s", i, mut, detail, r.Shape, transport)
			if excludeF3 && r.BodyEncrypted && r.Pristine && r.Shape != verifc18.ShapeSized && len(r.Body) > scaleDefaultLimit {
				st.Excluded()
				logb.WriteString(" (excluded: known finding)")
				continue
			}
			r.GenNow = time.Now().Unix()
			var problem string
			var inconclusive bool
			if overWire {
				problem, _, inconclusive = verifc18.SendCS(env, conf, gateWire, probe, r, nil, wire)
			} else {
				problem, _, inconclusive = verifc18.SendCS(env, conf, gate, probe, r, nil, nil)
			}
			if inconclusive {
				st.Note("scale-signed: a request of %d bytes took more than 3 s or timed out (inconclusive)", len(r.Body))
				logb.WriteString(" (inconclusive)")
				continue
			}
			if problem != "" {
				t.Fatalf("C18/scale-signed: %s\n history: %s", problem, logb.String())
			}
			judged++
			outcome := "not-run"
			if probe.RanCount() == 1 {
				outcome = "ran"
			}
			st.Class("scale-signed/mut:" + mut + "/" + outcome)
			st.Class("scale-signed/shape:" + r.Shape + "/" + transport)
			if len(r.Body) >= scaleBodyNT {
				st.Class("scale-signed/100x/mut:" + mut + "/" + outcome)
				st.Class("scale-signed/100x/shape:" + r.Shape + "/" + transport)
			}
		}
		cls := "medium"
		if large {
			cls = "large"
		}
		st.Class("scale-signed/size:" + cls)
		st.Class("scale-signed/body:" + scaleLog2(len(req.Body)))
		st.Class(fmt.Sprintf("scale-signed/encrypted=%v/limit:%s", encrypted, limitKind))
		if respLarge {
			st.Class("scale-signed/resp:" + scaleLog2(len(resp)))
		}
		if judged > 0 && (len(req.Body) >= scaleBodyNT || (encrypted && len(resp) >= scaleBodyNT)) {
			st.Class("scale-signed/nontrivial(>=100x)")
			st.NonTrivial(logb.String())
		}
	})
}

// ------------------------------------------------------------------ cryption paths

var scaleB64Repl = []byte("AQgwZz059+/=-_ \n!\x00\xff")

// scaleCryptBody draws the body of an encrypted request: valid, or one mutation of the
// base64 text or of the ciphertext at a drawn offset.
func scaleCryptBody(t *rapid.T, key, payload []byte) (kind, desc string, wire []byte) {
	ct, err := verifc18.ECBEncrypt(key, payload)
	if err != nil {
		t.Fatalf("generator bug: %v", err)
	}
	kind = rapid.SampledFrom([]string{"valid", "valid", "valid", "valid", "b64-flip-first", "b64-flip-inside", "b64-flip-inside", "b64-flip-last",
		"b64-append", "b64-truncate", "ct-flip", "ct-flip", "ct-drop-bytes", "ct-drop-blocks"}).Draw(t, "bodyKind")
	desc = "payload=" + scaleFP(payload)
	switch kind {
	case "valid":
		wire = []byte(b64std(ct))
	case "b64-flip-first", "b64-flip-inside", "b64-flip-last":
		wire = []byte(b64std(ct))
		pos := 0
		switch kind {
		case "b64-flip-inside":
			pos = scaleOffset(t, "at", len(wire))
		case "b64-flip-last":
			pos = len(wire) - 1
		}
		c := rapid.SampledFrom(scaleB64Repl).Draw(t, "byte")
		if c == wire[pos] {
			c = 'B'
			if wire[pos] == 'B' {
				c = 'C'
			}
		}
		desc += fmt.Sprintf(" base64[%d of %d] %q->%q", pos, len(wire), wire[pos], c)
		wire[pos] = c
	case "b64-append":
		c := rapid.SampledFrom(scaleB64Repl).Draw(t, "byte")
		wire = append([]byte(b64std(ct)), c)
		desc += fmt.Sprintf(" base64 + %q", c)
	case "b64-truncate":
		w := []byte(b64std(ct))
		n := rapid.IntRange(1, 4).Draw(t, "dropChars")
		if rapid.IntRange(0, 2).Draw(t, "dropMany") == 0 {
			n = scaleLogUniform(t, "dropBy", 1, len(w)-1)
		}
		wire = w[:len(w)-n]
		desc += fmt.Sprintf(" base64 tail truncated by %d", n)
	case "ct-flip":
		pos := scaleOffset(t, "at", len(ct))
		bit := rapid.IntRange(0, 7).Draw(t, "bit")
		ct[pos] ^= 1 << uint(bit)
		wire = []byte(b64std(ct))
		desc += fmt.Sprintf(" ciphertext[%d] bit %d flipped (block %d of %d)", pos, bit, pos/16+1, len(ct)/16)
	case "ct-drop-bytes":
		n := rapid.IntRange(1, 15).Draw(t, "drop")
		wire = []byte(b64std(ct[:len(ct)-n]))
		desc += fmt.Sprintf(" ciphertext truncated by %d bytes", n)
	case "ct-drop-blocks":
		blocks := len(ct) / 16
		n := 1
		if blocks > 2 {
			n = scaleLogUniform(t, "dropBlocks", 1, blocks-1)
		}
		if n >= blocks {
			n = blocks - 1
		}
		wire = []byte(b64std(ct[:len(ct)-16*n]))
		desc += fmt.Sprintf(" ciphertext truncated by %d whole blocks of %d", n, blocks)
	}
	return kind, desc, wire
}

// scalePlan draws what the handler does: how it reads the body and in which chunks it
// writes a response of respSize bytes.
func scalePlan(t *rapid.T, respSize int) (verifc18.RespPlan, string) {
	p := verifc18.RespPlan{Read: rapid.SampledFrom([]string{"all", "all", "pieces", "pieces", "none"}).Draw(t, "read")}
	if p.Read == "pieces" {
		p.Piece = scaleLogUniform(t, "piece", 16, 1<<17) // >= 16: the probe stops after 2^21 reads
	}
	hdrs := [][2]string{{"X-C18-A", "1"}, {"X-C18-B", "two words"}, {"Content-Type", "application/json"}}
	for i, n := 0, rapid.IntRange(0, 2).Draw(t, "headers"); i < n; i++ {
		p.Headers = append(p.Headers, rapid.SampledFrom(hdrs).Draw(t, fmt.Sprintf("header[%d]", i)))
	}
	if rapid.IntRange(0, 3).Draw(t, "explicitStatus") == 0 {
		p.Status = rapid.SampledFrom([]int{200, 201, 400, 500}).Draw(t, "status")
	}
	p.FlushFirst = rapid.IntRange(0, 7).Draw(t, "flushFirst") == 0
	resp, kind := scaleBytes(t, "resp", respSize)
	nchunks := rapid.IntRange(1, 6).Draw(t, "chunks")
	if respSize == 0 {
		nchunks = rapid.IntRange(0, 1).Draw(t, "emptyChunks")
	}
	cuts := []int{0, len(resp)}
	for i := 1; i < nchunks; i++ {
		cuts = append(cuts, scaleOffset(t, fmt.Sprintf("cut[%d]", i), len(resp)+1))
	}
	sort.Ints(cuts)
	for i := 0; i < nchunks; i++ {
		c := resp[cuts[i]:cuts[i+1]]
		if c == nil {
			c = []byte{}
		}
		p.Chunks = append(p.Chunks, c)
		p.FlushAfter = append(p.FlushAfter, rapid.IntRange(0, 3).Draw(t, fmt.Sprintf("flush[%d]", i)) == 0)
	}
	return p, kind
}

func TestVerifC18ScaleCryption(t *testing.T) {
	logx.Disable()
	env, err := verifc18.GetEnv()
	if err != nil {
		t.Fatalf("rsa setup: %v", err)
	}
	st := verifkit.New("scale-cryption")
	defer st.Flush()
	wire := verifc18.NewWireTarget()
	defer wire.Close()
	inner := pathsBuild()
	buildWire := verifc18.PathsBuild{
		Crypt: func(limit int64, key []byte, h http.Handler) http.Handler {
			return drainAfter(inner.Crypt(limit, key, h))
		},
		CS: func(limit int64, conf verifc18.CSConf, keyFiles map[string]string, h http.Handler) http.Handler {
			return drainAfter(inner.CS(limit, conf, keyFiles, h))
		},
	}
	opt := pathsOpt()
	excludeF3 := excludeUnknownLengthTruncation()
	rapid.Check(t, func(t *rapid.T) {
		st.Eval()
		c := verifc18.PathsCase{Gate: rapid.SampledFrom([]string{"cs", "cs", "bare"}).Draw(t, "gate")}
		keyLen := rapid.SampledFrom([]int{16, 24, 32}).Draw(t, "keyLen")
		c.Key = rapid.SliceOfN(rapid.Byte(), keyLen, keyLen).Draw(t, "aesKey")
		c.Method, c.Path = http.MethodPost, "/any"
		if c.Gate == "cs" {
			c.Conf = verifc18.CSConf{TolSec: 3600, FpA: "fp-a", FpB: "fp-b"}
			c.UseB = rapid.Bool().Draw(t, "keyB")
			c.Method = rapid.SampledFrom([]string{http.MethodPost, http.MethodPost, http.MethodPut, http.MethodGet, http.MethodDelete}).Draw(t, "method")
			c.Path = "/scale/" + rapid.SampledFrom([]string{"a", "orders", "v1/users"}).Draw(t, "path")
			c.Query = rapid.SampledFrom(scaleQueries).Draw(t, "query")
		}
		// which side is of scale size
		side := rapid.SampledFrom([]string{"request", "request", "response", "both"}).Draw(t, "scaledSide")
		reqSize := rapid.SampledFrom([]int{1, 16, 100, 1000, 4000}).Draw(t, "reqSmall")
		respSize := rapid.SampledFrom([]int{0, 1, 16, 100, 1000, 4000}).Draw(t, "respSmall")
		large := false
		if side != "response" {
			reqSize, large = scaleSize(t, "payload", scaleSmallBody, scaleBodyLo, scaleBodyHi)
		}
		if side != "request" {
			var l bool
			respSize, l = scaleSize(t, "resp", scaleSmallBody, scaleBodyLo, scaleBodyHi)
			large = large || l
		}
		payload, payKind := scaleBytes(t, "payload", reqSize)
		c.BodyKind, c.BodyDesc, c.Wire = scaleCryptBody(t, c.Key, payload)
		c.BodyDesc = payKind + " " + c.BodyDesc
		overWire := rapid.IntRange(0, 3).Draw(t, "wire") == 0
		shapes := scaleShapes
		if overWire {
			shapes = scaleShapesWire
		}
		c.Shape = rapid.SampledFrom(shapes).Draw(t, "shape")
		var limitKind string
		c.Limit, limitKind = scaleLimit(t, len(c.Wire), []string{"default", "default", "none", "none", "wire", "wire+1", "wire-1", "half", "double", "double"})
		var respKind string
		c.Plan, respKind = scalePlan(t, respSize)

		ref := verifc18.RefDecodeBody(c.Key, c.Wire)
		if (opt.ExcludePartialBlock && ref.Kind == verifc18.RefPartialBlock) || (opt.ExcludeNoCiphertext && ref.Kind == verifc18.RefNoCiphertext) {
			st.Excluded()
			return
		}
		if excludeF3 && c.Shape != verifc18.ShapeSized && len(c.Wire) > scaleDefaultLimit {
			st.Excluded()
			return
		}
		transport := "in-process"
		build := inner
		var w *verifc18.WireTarget
		if overWire {
			transport, build, w = "wire", buildWire, wire
		}
		out, problem, _, inconclusive := verifc18.CheckPaths(env, c, build, w)
		if inconclusive {
			st.Note("scale-cryption: request timed out or the signature's time window moved in flight (inconclusive)")
			return
		}
		if problem != "" {
			t.Fatalf("C18/scale-cryption (%s, response %s): %s", transport, respKind, problem)
		}
		outcome := "ran"
		if out.Ran == 0 {
			outcome = "not-run/" + strconv.Itoa(out.Code)
		}
		cls := "medium"
		if large {
			cls = "large"
		}
		st.Class("scale-cryption/size:" + cls)
		st.Class("scale-cryption/gate:" + c.Gate)
		st.Class("scale-cryption/body:" + c.BodyKind + "/ref:" + ref.Kind + "/" + outcome)
		st.Class("scale-cryption/shape:" + c.Shape + "/" + transport)
		st.Class("scale-cryption/wire:" + scaleLog2(len(c.Wire)))
		written := 0
		for _, ch := range c.Plan.Chunks {
			written += len(ch)
		}
		if out.Ran == 1 {
			st.Class("scale-cryption/resp:" + scaleLog2(written))
			st.Class(fmt.Sprintf("scale-cryption/chunks=%d", len(c.Plan.Chunks)))
			st.Class("scale-cryption/read:" + c.Plan.Read)
		}
		if out.OverLimit {
			st.Class("scale-cryption/over-limit:" + limitKind + "/" + c.Shape + "/" + outcome)
		} else {
			st.Class("scale-cryption/limit:" + limitKind + "/" + outcome)
		}
		if out.LaxPadding {
			st.Class("scale-cryption/observed:invalid-padding-accepted-by-the-server")
		}
		if len(c.Wire) >= scaleBodyNT || (out.Ran == 1 && written >= scaleBodyNT) {
			st.Class("scale-cryption/nontrivial(>=100x)/body:" + c.BodyKind + "/" + outcome)
			st.Class("scale-cryption/nontrivial(>=100x)/shape:" + c.Shape + "/" + transport)
			st.NonTrivial(transport + " " + c.String())
		}
	})
}

// ------------------------------------------------------------------ JWT

var (
	scaleStdClaims  = map[string]bool{"aud": true, "exp": true, "jti": true, "iat": true, "iss": true, "nbf": true, "sub": true}
	scaleClaimRunes = []rune("abcdefghijklmnopqrstuvwxyzABCDEFGHIJKLMNOPQRSTUVWXYZ0123456789 _-./:=+")
	scaleOddRunes   = []rune("\"\\<>&'键é\t")
	scaleOddKeys    = []string{"", "a b", "键", "Exp", "k.v", "Sub", "nbf "}
	scaleTokRepl    = []byte("ABCDEFGHIJKLMNOPQRSTUVWXYZabcdefghijklmnopqrstuvwxyz0123456789-_=+/. ~")
)

func scaleString(seed uint64, n int) string {
	var b strings.Builder
	b.Grow(n + 4)
	x := seed
	for b.Len() < n {
		x = scaleMix(x)
		if x%97 == 0 {
			b.WriteRune(scaleOddRunes[(x>>8)%uint64(len(scaleOddRunes))])
		} else {
			b.WriteRune(scaleClaimRunes[(x>>8)%uint64(len(scaleClaimRunes))])
		}
	}
	return b.String()
}

// scaleClaims builds a claim set whose JSON text is about target bytes: a log-uniform
// number of claims (strings, numbers, booleans, arrays and objects of strings), filled up by
// one last string claim.
func scaleClaims(t *rapid.T, target int) (map[string]any, int) {
	maxN := target / 24
	if maxN > 2000 {
		maxN = 2000
	}
	if maxN < 1 {
		maxN = 1
	}
	n := scaleLogUniform(t, "nclaims", 1, maxN)
	seed := rapid.Uint64().Draw(t, "claimSeed")
	per := target / n
	claims := map[string]any{}
	for i := 0; i < n; i++ {
		key := fmt.Sprintf("c%05d", i)
		z := scaleMix(seed + uint64(i))
		if i < len(scaleOddKeys) && z%3 == 0 {
			key = scaleOddKeys[i]
		}
		budget := per - len(key) - 6
		if budget < 0 {
			budget = 0
		}
		switch z % 10 {
		case 0:
			claims[key] = json.Number(strconv.FormatUint(z>>3, 10))
		case 1:
			claims[key] = z&1024 != 0
		case 2:
			k := int(z>>20)%6 + 1
			arr := make([]any, 0, k)
			for j := 0; j < k; j++ {
				arr = append(arr, scaleString(z+uint64(j), budget/k))
			}
			claims[key] = arr
		case 3:
			claims[key] = map[string]any{"name": scaleString(z, budget/2), "n": json.Number("12345678901234567890"), "role": scaleString(z+1, budget/3)}
		default:
			claims[key] = scaleString(z, budget)
		}
	}
	b, err := json.Marshal(claims)
	if err != nil {
		t.Fatalf("generator bug: claims do not marshal: %v", err)
	}
	if missing := target - len(b) - 12; missing > 0 {
		claims["padding"] = scaleString(seed^0x5ca1e, missing)
	}
	return claims, n
}

func TestVerifC18ScaleJWT(t *testing.T) {
	logx.Disable()
	st := verifkit.New("scale-jwt")
	defer st.Flush()
	rapid.Check(t, func(t *rapid.T) {
		st.Eval()
		secret := verifc18.GenSecret(t, "secret", 1)
		prev := ""
		if rapid.IntRange(0, 2).Draw(t, "hasPrev") > 0 {
			prev = verifc18.GenSecret(t, "prevSecret", 1)
			if prev == secret {
				prev += "p"
			}
		}
		probe := &verifc18.Probe{}
		gate := buildAuthorize(secret, prev, nil, probe)
		keys := [][]byte{[]byte(secret)}
		if prev != "" {
			keys = append(keys, []byte(prev))
		}
		alg := rapid.SampledFrom([]string{"HS256", "HS384", "HS512"}).Draw(t, "alg")
		target, large := scaleSizeW(t, "payload", scaleSmallJWT, scaleJWTLo, scaleJWTHi, 2) // cheap: two in VERIF_C18_SCALE_ONE_IN
		claims, nclaims := scaleClaims(t, target)
		now := time.Now().Unix()
		const hour = int64(3600)
		timeDesc := "valid"
		timeValid := true
		switch rapid.IntRange(0, 9).Draw(t, "timeKind") {
		case 0: // exactly one time claim on the invalid side
			claims["exp"] = json.Number(strconv.FormatInt(now-rapid.Int64Range(hour, 1000*hour).Draw(t, "expAgo"), 10))
			timeDesc, timeValid = "expired", false
		case 1:
			claims["exp"] = json.Number(strconv.FormatInt(now+1000*hour, 10))
			claims["nbf"] = json.Number(strconv.FormatInt(now+rapid.Int64Range(hour, 1000*hour).Draw(t, "nbfAhead"), 10))
			timeDesc, timeValid = "nbf-future", false
		case 2, 3: // no time claims at all
		default:
			claims["exp"] = json.Number(strconv.FormatInt(now+rapid.Int64Range(hour, 1000*hour).Draw(t, "expAhead"), 10))
			if rapid.Bool().Draw(t, "hasNbf") {
				claims["nbf"] = json.Number(strconv.FormatInt(now-hour, 10))
			}
			if rapid.Bool().Draw(t, "hasIat") {
				claims["iat"] = json.Number(strconv.FormatInt(now-2*hour, 10))
			}
		}
		if rapid.IntRange(0, 2).Draw(t, "withStd") == 0 {
			claims["sub"], claims["iss"], claims["jti"] = "subject", "issuer", "id-1"
		}
		payJSON, err := json.Marshal(claims)
		if err != nil {
			t.Fatalf("generator bug: claims do not marshal: %v", err)
		}
		signer, key := "cur", []byte(secret)
		if prev != "" && rapid.IntRange(0, 2).Draw(t, "signer") == 0 {
			signer, key = "prev", []byte(prev)
		}
		hdrJSON := []byte(fmt.Sprintf(`{"alg":"%s","typ":"JWT"}`, alg))
		tok := verifc18.SignJWT(hdrJSON, payJSON, alg, key)
		segs := strings.Split(tok, ".")

		var logb strings.Builder
		fmt.Fprintf(&logb, "secret=%q prev=%q alg=%s signer=%s time=%s claims=%d payload=%s token=%dB", secret, prev, alg, signer, timeDesc, nclaims, scaleFP(payJSON), len(tok))
		n := rapid.IntRange(1, 5).Draw(t, "presentations")
		judged := 0
		for i := 0; i < n; i++ {
			mut := rapid.SampledFrom([]string{"none", "none", "none", "flip-first", "flip-inside", "flip-inside", "flip-inside", "flip-last", "flip-last",
				"append", "truncate", "truncate"}).Draw(t, fmt.Sprintf("mutation[%d]", i))
			if i == 0 && n > 1 && rapid.Bool().Draw(t, "pristineFirst") {
				mut = "none" // the genuine token first, its mutations afterwards
			}
			auth := "Bearer " + tok
			detail := ""
			if mut != "none" {
				si := rapid.SampledFrom([]int{1, 1, 2}).Draw(t, fmt.Sprintf("segment[%d]", i))
				s := []byte(segs[si])
				switch mut {
				case "flip-first", "flip-inside", "flip-last":
					pos := 0
					switch mut {
					case "flip-inside":
						pos = scaleOffset(t, fmt.Sprintf("pos[%d]", i), len(s))
					case "flip-last":
						pos = len(s) - 1
					}
					c := rapid.SampledFrom(scaleTokRepl).Draw(t, fmt.Sprintf("char[%d]", i))
					if c == s[pos] {
						c = 'B'
						if s[pos] == 'B' {
							c = 'C'
						}
					}
					detail = fmt.Sprintf("seg%d[%d of %d] %q->%q", si, pos, len(s), s[pos], c)
					s[pos] = c
				case "append":
					c := rapid.SampledFrom(scaleTokRepl).Draw(t, fmt.Sprintf("char[%d]", i))
					s = append(s, c)
					detail = fmt.Sprintf("seg%d+%q", si, c)
				case "truncate":
					k := 1
					if rapid.IntRange(0, 2).Draw(t, fmt.Sprintf("truncMany[%d]", i)) == 0 {
						k = scaleLogUniform(t, fmt.Sprintf("truncBy[%d]", i), 1, len(s)-1)
					}
					s = s[:len(s)-k]
					detail = fmt.Sprintf("seg%d-%d", si, k)
				}
				m := []string{segs[0], segs[1], segs[2]}
				m[si] = string(s)
				auth = "Bearer " + strings.Join(m, ".")
			}
			fmt.Fprintf(&logb, "\n  #%d mut=%s(%s)", i, mut, detail)
			pristine := mut == "none"

			hr := httptest.NewRequest(http.MethodGet, "http://c18.test/p", http.NoBody)
			hr.Header.Set("Authorization", auth)
			probe.Reset([]byte("ok"), 1, false)
			rec := httptest.NewRecorder()
			now0 := time.Now().Unix()
			gate.ServeHTTP(rec, hr)
			now1 := time.Now().Unix()
			v0, v1 := verifc18.RefJWT(auth, keys, now0), verifc18.RefJWT(auth, keys, now1)
			if v0.Accept != v1.Accept {
				st.Note("scale-jwt: verdict changed while the request was in flight (inconclusive)")
				continue
			}
			ref := v0
			fail := func(format string, a ...any) {
				t.Fatalf("C18/scale-jwt: %s\n reference: accept=%v soft=%v (%s)\n got: handlerRan=%d status=%d\n history: %s",
					fmt.Sprintf(format, a...), ref.Accept, ref.Soft, ref.Why, probe.Ran, rec.Code, logb.String())
			}
			if pristine && timeValid != (ref.Accept && !ref.Soft) {
				fail("generator bug: token built with valid=%v, the reference says otherwise", timeValid)
			}
			if probe.Ran > 1 {
				fail("handler ran %d times for one request", probe.Ran)
			}
			if probe.Ran == 1 && !ref.Accept {
				fail("handler ran for a request without a valid credential (statement: 'runs only if the request carries a token whose HMAC signature verifies under the current or previous secret and whose time claims are currently valid')")
			}
			if probe.Ran == 0 && rec.Code != http.StatusUnauthorized {
				fail("rejected request answered with %d, statement says 401", rec.Code)
			}
			if pristine && ref.Accept && !ref.Soft && probe.Ran != 1 {
				fail("valid token (signed by the generator under a configured secret, time claims valid) was rejected")
			}
			if probe.Ran == 1 {
				ctx := probe.Req.Context()
				for k, want := range ref.Claims {
					if scaleStdClaims[k] {
						continue
					}
					if got := ctx.Value(k); !verifc18.SameClaim(got, want) {
						fail("claim %q: handler sees %.80q (%T), token says %.80q (statement: 'on success the non-standard claims are what the handler sees')", k, fmt.Sprint(got), got, fmt.Sprint(want))
					}
				}
				if pristine && !verifc18.SameClaim(map[string]any(ref.Claims), claims) {
					fail("generator bug: the claims the reference decoded differ from the generated ones")
				}
			}
			judged++
			outcome := "401"
			if probe.Ran == 1 {
				outcome = "ran"
			}
			st.Class("scale-jwt/mut:" + mut + "/" + outcome)
			if len(payJSON) >= scaleJWTNT {
				st.Class("scale-jwt/100x/mut:" + mut + "/" + outcome)
			}
		}
		cls := "medium"
		if large {
			cls = "large"
		}
		st.Class("scale-jwt/size:" + cls)
		st.Class("scale-jwt/payload:" + scaleLog2(len(payJSON)))
		st.Class("scale-jwt/claims:" + scaleLog2(nclaims))
		if judged > 0 && len(payJSON) >= scaleJWTNT {
			st.Class("scale-jwt/nontrivial(>=100x)")
			st.NonTrivial(logb.String())
		}
	})
}
