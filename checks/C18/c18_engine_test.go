//go:build verif

package rest

import (
	"net/http"
	"testing"
	"time"

	"github.com/zeromicro/go-zero/core/logx"
	"github.com/zeromicro/go-zero/internal/verifc18"
	"github.com/zeromicro/go-zero/internal/verifkit"
	"github.com/zeromicro/go-zero/rest/router"
	"pgregory.net/rapid"
)

// Property C18 through the route options of package rest (WithJwt, WithJwtTransition,
// WithSignature): engine.go must put the gates in front of the route's handler with the
// configured secrets / keys / tolerance / strict flag.  In-package only because the
// engine's bindRoutes is the way to obtain the assembled http.Handler without listening
// (the package's own tests do the same).

func newBareServer(opts ...RunOption) *Server {
	// what NewServer does, minus the process-wide ServiceConf.SetUp (done once below);
	// a zero RestConf switches every optional built-in middleware off
	s := &Server{ngin: newEngine(RestConf{}), router: router.NewRouter()}
	for _, o := range opts {
		o(s)
	}
	return s
}

func bound(s *Server) http.Handler {
	rt := router.NewRouter()
	if err := s.ngin.bindRoutes(rt); err != nil {
		panic("bindRoutes: " + err.Error())
	}
	return rt
}

func engineJWT(secret, prev string, cb verifc18.UnauthorizedCallback, inner http.Handler) http.Handler {
	var ro []RunOption
	if cb != nil {
		ro = append(ro, WithUnauthorizedCallback(cb))
	}
	s := newBareServer(ro...)
	opt := WithJwt(secret)
	if prev != "" {
		opt = WithJwtTransition(secret, prev)
	}
	s.AddRoute(Route{Method: http.MethodGet, Path: "/p", Handler: inner.ServeHTTP}, opt)
	return bound(s)
}

func engineSignature(conf verifc18.CSConf, keyFiles map[string]string, routes []verifc18.Route, inner http.Handler) http.Handler {
	sc := SignatureConf{Strict: true, Expiry: time.Duration(conf.TolSec) * time.Second}
	// deterministic order: A first
	sc.PrivateKeys = append(sc.PrivateKeys, PrivateKeyConf{Fingerprint: conf.FpA, KeyFile: keyFiles[conf.FpA]})
	sc.PrivateKeys = append(sc.PrivateKeys, PrivateKeyConf{Fingerprint: conf.FpB, KeyFile: keyFiles[conf.FpB]})
	s := newBareServer()
	var rs []Route
	for _, r := range routes {
		rs = append(rs, Route{Method: r.Method, Path: r.Path, Handler: inner.ServeHTTP})
	}
	s.AddRoutes(rs, WithSignature(sc))
	return bound(s)
}

func setupOnce() {
	MustNewServer(RestConf{}) // runs the process-wide set-up once, as a real service does
	logx.Disable()
}

func TestVerifC18EngineJWT(t *testing.T) {
	setupOnce()
	st := verifkit.New("engine-jwt")
	defer st.Flush()
	rapid.Check(t, func(t *rapid.T) {
		st.Eval()
		verifc18.RunJWTCase(t, st, 8, engineJWT) // rest.WithJwt requires secrets of >= 8 bytes
	})
}

func TestVerifC18EngineSignature(t *testing.T) {
	setupOnce()
	env, err := verifc18.GetEnv()
	if err != nil {
		t.Fatalf("rsa setup: %v", err)
	}
	st := verifkit.New("engine-signature")
	defer st.Flush()
	known := verifkit.KnownFindings("C18")
	opt := verifc18.CSGenOpt{ExcludeEmptyEncrypted: known[verifc18.KnownEmptyPayload],
		ExcludeUnknownLenEncrypted: known[verifc18.KnownUnknownLength]}
	rapid.Check(t, func(t *rapid.T) {
		st.Eval()
		verifc18.RunCSCase(t, st, env, opt, engineSignature)
	})
}
