//go:build verif

package handler_test

import (
	"bytes"
	"crypto/rsa"
	"encoding/base64"
	"fmt"
	"io"
	"net/http"
	"net/http/httptest"
	"strings"
	"sync/atomic"
	"testing"
	"testing/iotest"
	"time"

	"github.com/golang-jwt/jwt/v4"
	"github.com/zeromicro/go-zero/core/logx"
	"github.com/zeromicro/go-zero/internal/verifc18"
	"github.com/zeromicro/go-zero/internal/verifkit"
	"pgregory.net/rapid"
)

// Unit `instances`: several independently configured gates live in ONE process (as the
// route groups of one server, or several servers of one binary, do) and credentials are
// REPLAYED across them.  The statement speaks of "the current or previous secret" and of
// "a configured key": configured at the gate the request goes through, and at no other.
// Every presentation (credential c, gate g) is judged by the reference verifier of
// c18kit.go evaluated with the configuration of g alone, at the instant of the
// presentation; what was presented before - to g or to any other gate - must not matter.
//
// JWT gates run on golang-jwt's own clock hook (jwt.TimeFunc, as in jwt-clock), so time
// passes without waiting; content security reads the wall clock (time.Now in
// rest/internal/security), there is no hook, so for those gates time is what it is and the
// reference is evaluated just before and just after each request.

// instHint is appended to every failure: a bug of the kind this unit looks for lives in state
// kept per process, which outlives a rapid case, so rapid's re-run of the failing case for
// shrinking may behave differently ("flaky test, can not reproduce a failure").
const instHint = "\n note: if rapid calls this failure flaky or cannot shrink it, state kept per process survived from an earlier case - which is what this unit looks for"

var (
	instFps  = []string{"fp-1", "fp-2", "fp-3", "k:a/b+c"}
	instTols = []int64{10, 30, 60, 3600, 86400}
)

type instKey struct {
	fp, name string
	key      *verifc18.RSAKey
}

type instGate struct {
	idx  int
	kind string // "jwt" | "cs"
	// jwt
	secret, prev string
	cbKind       int
	cbCalls      int
	// content security
	keys   []instKey
	tolSec int64

	h     http.Handler
	probe *verifc18.Probe
}

func (g *instGate) hmacKeys() [][]byte {
	k := [][]byte{[]byte(g.secret)}
	if g.prev != "" {
		k = append(k, []byte(g.prev))
	}
	return k
}

func (g *instGate) keyMap() map[string]*rsa.PrivateKey {
	m := map[string]*rsa.PrivateKey{}
	for _, k := range g.keys {
		m[k.fp] = k.key.Priv
	}
	return m
}

func (g *instGate) render() string {
	if g.kind == "jwt" {
		return fmt.Sprintf("G%d=jwt{secret=%q prev=%q cb=%d}", g.idx, g.secret, g.prev, g.cbKind)
	}
	var f []string
	for _, k := range g.keys {
		f = append(f, k.fp+"->"+k.name)
	}
	return fmt.Sprintf("G%d=cs{%s tol=%ds}", g.idx, strings.Join(f, ","), g.tolSec)
}

type instCred struct {
	id        int
	kind      string
	jwt       verifc18.JWTReq
	cs        verifc18.CSReq
	mintedFor int
	pristine  bool // exactly what a conforming client's signer builds: liveness is asserted where the reference accepts
	desc      string
	accepted  []int // gates (in order of first acceptance) whose protected handler ran for it
	rejected  []int // gates that refused it
}

func has(xs []int, v int) bool {
	for _, x := range xs {
		if x == v {
			return true
		}
	}
	return false
}

func hasOther(xs []int, v int) bool {
	for _, x := range xs {
		if x != v {
			return true
		}
	}
	return false
}

type instCase struct {
	t     *rapid.T
	st    *verifkit.Stats
	env   *verifc18.Env
	opt   verifc18.CSGenOpt
	vnow  *atomic.Int64
	start int64
	gates []*instGate
	pool  []*instCred
	log   strings.Builder

	accThenRej, rejThenAcc int
	inconclusive           int
}

// currentElsewhere: the previous secret of g is the current secret of another gate.
func (c *instCase) currentElsewhere(g *instGate) bool {
	for _, o := range c.gates {
		if o != g && o.kind == "jwt" && o.secret == g.prev && o.secret != g.secret {
			return true
		}
	}
	return false
}

func (c *instCase) gatesOf(kind string) []*instGate {
	var out []*instGate
	for _, g := range c.gates {
		if g.kind == kind {
			out = append(out, g)
		}
	}
	return out
}

// ---------------------------------------------------------------- configuration of the gates

func genInstJWTGates(t *rapid.T, n, base int) (gates []*instGate, rotation bool) {
	// five distinct secrets: four possible current secrets and one that is nobody's current
	pool := make([]string, 5)
	for i := range pool {
		pool[i] = verifc18.GenSecret(t, fmt.Sprintf("secret%d", i), 1)
		for j := 0; j < i; j++ {
			if pool[j] == pool[i] {
				pool[i] += fmt.Sprint(i)
				j = -1
			}
		}
	}
	for i := 0; i < n; i++ {
		g := &instGate{idx: base + i, kind: "jwt", secret: pool[i]}
		if i > 0 && rapid.IntRange(0, 6).Draw(t, fmt.Sprintf("jwt%d.twin", i)) == 0 {
			g.secret = pool[0] // same current secret as the first gate, previous secrets may differ
		}
		g.cbKind = rapid.IntRange(0, 2).Draw(t, fmt.Sprintf("jwt%d.callback", i))
		gates = append(gates, g)
	}
	for i, g := range gates {
		switch k := rapid.IntRange(0, 9).Draw(t, fmt.Sprintf("jwt%d.prevKind", i)); {
		case k < 3: // no previous secret
		case k < 8: // key rotation: the previous secret is another gate's current secret
			var others []string
			for j, o := range gates {
				if j != i && o.secret != g.secret {
					others = append(others, o.secret)
				}
			}
			if len(others) > 0 {
				g.prev = others[rapid.IntRange(0, len(others)-1).Draw(t, fmt.Sprintf("jwt%d.prevOf", i))]
			}
		default:
			g.prev = pool[4]
		}
	}
	for i, g := range gates {
		for j, o := range gates {
			if i != j && g.prev != "" && g.prev == o.secret && g.secret != o.secret {
				rotation = true
			}
		}
	}
	return gates, rotation
}

func genInstCSGates(t *rapid.T, env *verifc18.Env, n, base int) (gates []*instGate, sameFpOtherKey bool) {
	rsaPool := []instKey{{name: "A", key: env.A}, {name: "B", key: env.B}, {name: "C", key: env.C}}
	drawKey := func(label string, not string) instKey {
		var cand []instKey
		for _, k := range rsaPool {
			if k.name != not {
				cand = append(cand, k)
			}
		}
		return cand[rapid.IntRange(0, len(cand)-1).Draw(t, label)]
	}
	for i := 0; i < n; i++ {
		lbl := fmt.Sprintf("cs%d", i)
		g := &instGate{idx: base + i, kind: "cs"}
		size := rapid.SampledFrom([]int{1, 2, 2, 3}).Draw(t, lbl+".keys")
		used := map[string]bool{}    // fingerprints of this gate
		blocked := map[string]bool{} // fingerprints this gate must not have
		if i > 0 {
			rel := rapid.SampledFrom([]string{"same-fp-other-key", "same-fp-other-key", "overlap", "disjoint", "any"}).Draw(t, lbl+".relation")
			ref := gates[rapid.IntRange(0, i-1).Draw(t, lbl+".relatedTo")]
			switch rel {
			case "same-fp-other-key":
				e := ref.keys[0]
				k := drawKey(lbl+".otherKey", e.name)
				k.fp = e.fp
				g.keys = append(g.keys, k)
				used[k.fp] = true
			case "overlap":
				g.keys = append(g.keys, ref.keys[0])
				used[ref.keys[0].fp] = true
			case "disjoint":
				for _, e := range ref.keys {
					blocked[e.fp] = true
				}
			}
		}
		for len(g.keys) < size {
			var free []string
			for _, fp := range instFps {
				if !used[fp] && !blocked[fp] {
					free = append(free, fp)
				}
			}
			if len(free) == 0 {
				break
			}
			k := drawKey(fmt.Sprintf("%s.key%d", lbl, len(g.keys)), "")
			k.fp = free[rapid.IntRange(0, len(free)-1).Draw(t, fmt.Sprintf("%s.fp%d", lbl, len(g.keys)))]
			used[k.fp] = true
			g.keys = append(g.keys, k)
		}
		ti := rapid.IntRange(0, len(instTols)-1).Draw(t, lbl+".tolerance")
		if i > 0 && instTols[ti] == gates[i-1].tolSec && rapid.IntRange(0, 3).Draw(t, lbl+".sameTol") > 0 {
			ti = (ti + 1) % len(instTols)
		}
		g.tolSec = instTols[ti]
		gates = append(gates, g)
	}
	for i, g := range gates {
		for j, o := range gates {
			if i == j {
				continue
			}
			for _, a := range g.keys {
				for _, b := range o.keys {
					if a.fp == b.fp && a.name != b.name {
						sameFpOtherKey = true
					}
				}
			}
		}
	}
	return gates, sameFpOtherKey
}

func (c *instCase) build() {
	for _, g := range c.gates {
		g := g
		g.probe = &verifc18.Probe{}
		if g.kind == "jwt" {
			var cb verifc18.UnauthorizedCallback
			switch g.cbKind {
			case 1:
				cb = func(w http.ResponseWriter, r *http.Request, err error) { g.cbCalls++ }
			case 2:
				cb = func(w http.ResponseWriter, r *http.Request, err error) {
					g.cbCalls++
					w.Header().Set("X-Reason", "denied")
				}
			}
			g.h = buildAuthorize(g.secret, g.prev, cb, g.probe)
			continue
		}
		files := map[string]string{}
		for _, k := range g.keys {
			files[k.fp] = k.key.PrivFile
		}
		g.h = buildContentSecurity(verifc18.CSConf{TolSec: g.tolSec}, files, nil, g.probe)
	}
}

// ---------------------------------------------------------------- minting

func (c *instCase) mint(t *rapid.T, g *instGate) *instCred {
	cr := &instCred{id: len(c.pool), kind: g.kind, mintedFor: g.idx}
	if g.kind == "jwt" {
		cr.jwt = verifc18.GenJWTReq(t, g.secret, g.prev, c.vnow.Load())
		cr.pristine = cr.jwt.Pristine
		cr.desc = cr.jwt.Desc
	} else {
		// the client's view of the gate: two (fingerprint, key) pairs, the second one from
		// the gate if it has one, otherwise a pair the gate does not have
		i := rapid.IntRange(0, len(g.keys)-1).Draw(t, "viewKeyA")
		a := g.keys[i]
		var b instKey
		if len(g.keys) > 1 {
			j := rapid.IntRange(0, len(g.keys)-2).Draw(t, "viewKeyB")
			if j >= i {
				j++
			}
			b = g.keys[j]
		} else {
			for _, fp := range instFps {
				if fp != a.fp {
					b.fp = fp
					break
				}
			}
			b.name, b.key = "B", c.env.B
			if a.name == "B" {
				b.name, b.key = "C", c.env.C
			}
		}
		venv := &verifc18.Env{A: a.key, B: b.key, X: c.env.X, C: c.env.C, Dir: c.env.Dir}
		conf := verifc18.CSConf{TolSec: g.tolSec, FpA: a.fp, FpB: b.fp}
		cr.cs = verifc18.GenCSReq(t, c.st, venv, conf, time.Now().Unix(), c.opt)
		cr.pristine = cr.cs.Pristine
		cr.desc = fmt.Sprintf("view{A=%s->%s,B=%s->%s} %s", a.fp, a.name, b.fp, b.name, cr.cs.Desc)
	}
	c.pool = append(c.pool, cr)
	fmt.Fprintf(&c.log, "\n  mint c%d for G%d: %s", cr.id, g.idx, cr.desc)
	return cr
}

// fpSwap derives a credential from a signed request by naming another fingerprint: the
// same encrypted secret= blob, the same signature.
func (c *instCase) fpSwap(t *rapid.T, src *instCred) *instCred {
	h := src.cs.Header
	if !src.cs.HasHeader || !strings.HasPrefix(h, "key=") {
		t.Skip("the header of this credential does not start with key=")
	}
	end := strings.Index(h, "; ")
	if end < 0 {
		t.Skip("the header of this credential has one field only")
	}
	cur := h[len("key="):end]
	var others []string
	for _, fp := range instFps {
		if fp != cur {
			others = append(others, fp)
		}
	}
	fp := rapid.SampledFrom(others).Draw(t, "otherFingerprint")
	cr := &instCred{id: len(c.pool), kind: "cs", cs: src.cs, mintedFor: src.mintedFor, pristine: src.pristine}
	cr.cs.Header = "key=" + fp + h[end:]
	cr.desc = fmt.Sprintf("c%d with key=%s instead of key=%s (same secret blob, same signature)", src.id, fp, cur)
	c.pool = append(c.pool, cr)
	fmt.Fprintf(&c.log, "\n  derive c%d: %s", cr.id, cr.desc)
	return cr
}

// ---------------------------------------------------------------- presenting

func instShapedBody(shape string, b []byte) (io.ReadCloser, int64) {
	switch shape {
	case verifc18.ShapeUnknown:
		return io.NopCloser(bytes.NewReader(b)), -1
	case verifc18.ShapeUnknown1:
		return io.NopCloser(iotest.OneByteReader(bytes.NewReader(b))), -1
	}
	if len(b) == 0 {
		return http.NoBody, 0
	}
	return io.NopCloser(bytes.NewReader(b)), int64(len(b))
}

func instClip(b []byte) string {
	if len(b) > 48 {
		return string(b[:48]) + "…"
	}
	return string(b)
}

func (c *instCase) present(cr *instCred, g *instGate) {
	if cr.kind != g.kind {
		c.t.Fatalf("harness bug: %s credential for a %s gate", cr.kind, g.kind)
	}
	var ran, judged bool
	if g.kind == "jwt" {
		ran, judged = c.presentJWT(cr, g)
	} else {
		ran, judged = c.presentCS(cr, g)
	}
	if !judged {
		return
	}
	origin := "own"
	if g.idx != cr.mintedFor {
		origin = "other"
	}
	outcome := "refused"
	if ran {
		outcome = "ran"
	}
	c.st.Class("inst/" + g.kind + "/" + origin + "-gate/" + outcome)
	if ran {
		if hasOther(cr.rejected, g.idx) {
			c.rejThenAcc++
			c.st.Class("replay-rejected-then-accepted")
		}
		if !has(cr.accepted, g.idx) {
			cr.accepted = append(cr.accepted, g.idx)
		}
		if g.kind == "jwt" && g.prev != "" && c.currentElsewhere(g) &&
			!verifc18.RefJWT(cr.jwt.Auth, [][]byte{[]byte(g.secret)}, c.vnow.Load()).Accept {
			c.st.Class("rotation-pair/accepted-under-a-previous-secret-that-is-another-gate's-current")
		}
	} else {
		if hasOther(cr.accepted, g.idx) {
			c.accThenRej++
			c.st.Class("replay-accepted-then-rejected")
		}
		if !has(cr.rejected, g.idx) {
			cr.rejected = append(cr.rejected, g.idx)
		}
	}
}

// settle moves the virtual clock off an edge: a time claim nearer than 2 s to the instant of
// the presentation (claims may carry half seconds, the library works in whole seconds) is not
// what this unit is about - jwt-clock walks across the edges.
func (c *instCase) settle(cr *instCred, g *instGate) {
	for k := 0; k < 8; k++ {
		now := c.vnow.Load()
		a := verifc18.RefJWT(cr.jwt.Auth, g.hmacKeys(), now-2)
		b := verifc18.RefJWT(cr.jwt.Auth, g.hmacKeys(), now+2)
		if a.Accept == b.Accept && a.Soft == b.Soft {
			return
		}
		c.vnow.Add(5)
		fmt.Fprintf(&c.log, " (+5s off an edge)")
	}
}

func (c *instCase) presentJWT(cr *instCred, g *instGate) (ran, judged bool) {
	c.settle(cr, g)
	now := c.vnow.Load()
	ref := verifc18.RefJWT(cr.jwt.Auth, g.hmacKeys(), now)
	hr := httptest.NewRequest(http.MethodGet, "http://c18.test/p", http.NoBody)
	if cr.jwt.Auth != "" {
		hr.Header.Set("Authorization", cr.jwt.Auth)
	}
	g.probe.Reset([]byte("ok"), 1, false)
	for _, o := range c.gates {
		if o != g {
			o.probe.Reset(nil, 1, false)
		}
	}
	rec := httptest.NewRecorder()
	g.h.ServeHTTP(rec, hr)
	n := g.probe.RanCount()
	fmt.Fprintf(&c.log, "\n  present c%d -> G%d @+%ds: ran=%d status=%d (reference: accept=%v soft=%v, %s)",
		cr.id, g.idx, now-c.start, n, rec.Code, ref.Accept, ref.Soft, ref.Why)
	fail := func(format string, a ...any) {
		c.t.Fatalf("C18/instances(jwt): %s\n gate: %s\n credential c%d (minted for G%d, accepted before by %v, refused before by %v): %s\n Authorization: %q\n reference for THIS gate at +%d s: accept=%v soft=%v (%s)\n got: handlerRan=%d status=%d\n history: %s"+instHint,
			fmt.Sprintf(format, a...), g.render(), cr.id, cr.mintedFor, cr.accepted, cr.rejected, cr.desc, cr.jwt.Auth,
			now-c.start, ref.Accept, ref.Soft, ref.Why, n, rec.Code, c.log.String())
	}
	for _, o := range c.gates {
		if o != g && o.probe.RanCount() != 0 {
			fail("the protected handler of G%d ran for a request sent to G%d", o.idx, g.idx)
		}
	}
	if n > 1 {
		fail("handler ran %d times for one request", n)
	}
	if n == 1 && !ref.Accept {
		fail("handler ran for a request without a credential valid AT THIS GATE (statement: 'runs only if the request carries a token whose HMAC signature verifies under the current or previous secret and whose time claims are currently valid')")
	}
	if n == 0 && rec.Code != http.StatusUnauthorized {
		fail("rejected request answered with %d, statement says 401", rec.Code)
	}
	if cr.pristine && ref.Accept && !ref.Soft && n != 1 {
		fail("valid token (signed by the generator's signer under a secret configured at this gate, time claims valid) was rejected; what other gates saw before must not matter")
	}
	if n == 1 {
		ctx := g.probe.Req.Context()
		for k, want := range ref.Claims {
			switch k {
			case "aud", "exp", "jti", "iat", "iss", "nbf", "sub":
				continue
			}
			if got := ctx.Value(k); !verifc18.SameClaim(got, want) {
				fail("claim %q: handler sees %#v (%T), token says %#v", k, got, got, want)
			}
		}
	}
	return n == 1, true
}

func (c *instCase) presentCS(cr *instCred, g *instGate) (ran, judged bool) {
	req := cr.cs
	if req.Shape == "" {
		req.Shape = verifc18.ShapeSized
	}
	body, cl := instShapedBody(req.Shape, req.Body)
	u := "http://c18.test" + req.Path
	if req.Query != "" {
		u += "?" + req.Query
	}
	hr := httptest.NewRequest(req.Method, u, body)
	hr.ContentLength = cl
	if hr.URL.Path != req.Path || hr.URL.RawQuery != req.Query {
		c.t.Fatalf("generator bug: request line parsed to path %q query %q", hr.URL.Path, hr.URL.RawQuery)
	}
	if req.HasHeader {
		hr.Header.Set("X-Content-Security", req.Header)
	}
	g.probe.Reset(req.Resp, req.RespChunks, true)
	for _, o := range c.gates {
		if o != g {
			o.probe.Reset(nil, 1, false)
		}
	}
	rec := httptest.NewRecorder()
	keys := g.keyMap()
	now0 := time.Now().Unix()
	g.h.ServeHTTP(rec, hr)
	now1 := time.Now().Unix()
	// the body digest is that of the bytes the handler can read from r.Body: req.Body
	ref := verifc18.RefCSKeys(keys, g.tolSec, req.Header, req.HasHeader, req.Method, req.Path, req.Query, req.Body, now0)
	ref1 := verifc18.RefCSKeys(keys, g.tolSec, req.Header, req.HasHeader, req.Method, req.Path, req.Query, req.Body, now1)
	if ref.Accept != ref1.Accept || now1-now0 > 3 {
		c.inconclusive++
		c.st.Note("instances: the reference verdict changed while the request was in flight, or the request took more than 3 s (inconclusive)")
		fmt.Fprintf(&c.log, "\n  present c%d -> G%d: inconclusive", cr.id, g.idx)
		return false, false
	}
	code, respBody := rec.Code, rec.Body.Bytes()
	n := g.probe.RanCount()
	fmt.Fprintf(&c.log, "\n  present c%d -> G%d: ran=%d status=%d (reference: accept=%v, %s)", cr.id, g.idx, n, code, ref.Accept, ref.Why)
	fail := func(format string, a ...any) {
		c.t.Fatalf("C18/instances(content-security): %s\n gate: %s\n credential c%d (minted for G%d, accepted before by %v, refused before by %v): %s\n X-Content-Security: %s\n reference for THIS gate: accept=%v (%s)\n got: handlerRan=%d status=%d respLen=%d shape=%s bodyOnWire=%dB\n history: %s"+instHint,
			fmt.Sprintf(format, a...), g.render(), cr.id, cr.mintedFor, cr.accepted, cr.rejected, cr.desc, req.Header,
			ref.Accept, ref.Why, n, code, len(respBody), req.Shape, len(req.Body), c.log.String())
	}
	if !ref.Accept {
		c.st.Class("inst/cs/reference-rejects:" + shortWhy(ref.Why))
	}
	for _, o := range c.gates {
		if o != g && o.probe.RanCount() != 0 {
			fail("the protected handler of G%d ran for a request sent to G%d", o.idx, g.idx)
		}
	}
	if n > 1 {
		fail("handler ran %d times for one request", n)
	}
	if n == 1 && !ref.Accept {
		fail("handler ran although the request is not acceptable AT THIS GATE (statement: 'runs only if the signature covers exactly the request's timestamp (within tolerance), method, path, query and body digest under a secret encrypted to a configured key')")
	}
	if n == 0 && !ref.Accept && code != http.StatusForbidden {
		fail("rejected request answered with %d, strict mode answers 403", code)
	}
	if !(cr.pristine && ref.Accept) {
		return n == 1, true
	}
	// a request exactly as a conforming client of THIS gate builds it
	if n != 1 {
		fail("correctly signed request (all components covered, timestamp inside this gate's tolerance, secret encrypted to the key this gate has under the named fingerprint) did not reach the handler; what other gates saw before must not matter")
	}
	seenBody, bodyErr := g.probe.Seen()
	if bodyErr != nil {
		fail("handler could not read the body: %v", bodyErr)
	}
	if req.BodyEncrypted {
		if !bytes.Equal(seenBody, req.Payload) {
			fail("encrypted body did not reach the handler decrypted: handler read %d bytes %q, payload was %d bytes %q", len(seenBody), instClip(seenBody), len(req.Payload), instClip(req.Payload))
		}
		if len(respBody) == 0 {
			if len(req.Resp) != 0 {
				fail("response of %d bytes came back empty", len(req.Resp))
			}
		} else {
			ct, err := base64.StdEncoding.DecodeString(string(respBody))
			if err != nil {
				fail("response is not base64 (returned in the clear?): %q", instClip(respBody))
			}
			pt, err := verifc18.ECBDecrypt(req.AESKey, ct)
			if err != nil {
				fail("response does not decrypt under the request key: %v", err)
			}
			if !bytes.Equal(pt, req.Resp) {
				fail("decrypted response %q differs from what the handler wrote %q", instClip(pt), instClip(req.Resp))
			}
		}
	} else if !bytes.Equal(seenBody, req.Body) {
		fail("plain body changed on its way to the handler: read %q, sent %q", instClip(seenBody), instClip(req.Body))
	}
	return true, true
}

func shortWhy(why string) string {
	switch {
	case strings.HasPrefix(why, "timestamp "):
		return "outside-this-gate's-tolerance"
	case strings.HasPrefix(why, "fingerprint"):
		return "fingerprint-not-configured-here"
	case strings.HasPrefix(why, "secret does not decrypt"):
		return "secret-encrypted-to-another-key"
	case strings.HasPrefix(why, "signature"):
		return "signature"
	}
	return "other"
}

// ---------------------------------------------------------------- the property

func TestVerifC18Instances(t *testing.T) {
	logx.Disable()
	env, err := verifc18.GetEnv()
	if err != nil {
		t.Fatalf("rsa setup: %v", err)
	}
	st := verifkit.New("instances")
	defer st.Flush()
	opt := csOptions()
	var vnow atomic.Int64
	old := jwt.TimeFunc
	jwt.TimeFunc = func() time.Time { return time.Unix(vnow.Load(), 0) }
	defer func() { jwt.TimeFunc = old }()

	rapid.Check(t, func(t *rapid.T) {
		st.Eval()
		c := &instCase{t: t, st: st, env: env, opt: opt, vnow: &vnow}
		c.start = int64(1_900_000_000) + rapid.Int64Range(0, 1_000_000).Draw(t, "epoch")
		vnow.Store(c.start)

		mode := rapid.SampledFrom([]string{"jwt", "jwt", "cs", "cs", "mixed"}).Draw(t, "mode")
		n := rapid.SampledFrom([]int{2, 2, 3, 3, 4}).Draw(t, "gates")
		nj, nc := 0, 0
		switch mode {
		case "jwt":
			nj = n
		case "cs":
			nc = n
		default:
			nj = rapid.IntRange(1, n-1).Draw(t, "jwtGates")
			nc = n - nj
		}
		var rotation, sameFp bool
		if nj > 0 {
			var gs []*instGate
			gs, rotation = genInstJWTGates(t, nj, 0)
			c.gates = append(c.gates, gs...)
		}
		if nc > 0 {
			var gs []*instGate
			gs, sameFp = genInstCSGates(t, env, nc, nj)
			c.gates = append(c.gates, gs...)
		}
		// construction order is a dimension of its own (state written by a constructor)
		order := make([]int, len(c.gates))
		for i := range order {
			order[i] = i
		}
		for i := len(order) - 1; i > 0; i-- {
			j := rapid.IntRange(0, i).Draw(t, fmt.Sprintf("buildOrder[%d]", i))
			order[i], order[j] = order[j], order[i]
		}
		built := make([]*instGate, len(c.gates))
		for i, o := range order {
			built[i] = c.gates[o]
		}
		all := c.gates
		c.gates = built
		c.build()
		c.gates = all
		var rendered []string
		for _, g := range c.gates {
			rendered = append(rendered, g.render())
		}
		fmt.Fprintf(&c.log, "%s built in order %v:", strings.Join(rendered, " "), order)

		st.Class(fmt.Sprintf("gates/%d", len(c.gates)))
		st.Class("gates/mode:" + mode)
		if rotation {
			st.Class("rotation-pair")
		}
		if sameFp {
			st.Class("same-fingerprint-different-key")
		}

		pickGate := func(t *rapid.T, kind, label string) *instGate {
			gs := c.gates
			if kind != "" {
				gs = c.gatesOf(kind)
			}
			return gs[rapid.IntRange(0, len(gs)-1).Draw(t, label)]
		}
		pickCred := func(t *rapid.T) *instCred {
			if len(c.pool) == 0 {
				t.Skip("no credential yet")
			}
			if rapid.IntRange(0, 2).Draw(t, "recent") == 0 {
				return c.pool[len(c.pool)-1]
			}
			return c.pool[rapid.IntRange(0, len(c.pool)-1).Draw(t, "credential")]
		}
		otherGate := func(t *rapid.T, cr *instCred, not int) *instGate {
			var gs []*instGate
			for _, g := range c.gatesOf(cr.kind) {
				if g.idx != not {
					gs = append(gs, g)
				}
			}
			if len(gs) == 0 {
				t.Skip("no second gate of this kind")
			}
			return gs[rapid.IntRange(0, len(gs)-1).Draw(t, "otherGate")]
		}
		mint := func(t *rapid.T) {
			if len(c.pool) >= 14 {
				t.Skip("pool is full")
			}
			g := pickGate(t, "", "mintFor")
			cr := c.mint(t, g)
			if rapid.IntRange(0, 9).Draw(t, "presentAtOnce") < 6 {
				c.present(cr, g)
			}
		}
		present := func(t *rapid.T) {
			cr := pickCred(t)
			c.present(cr, pickGate(t, cr.kind, "gate"))
		}
		// the point of the unit: X is a gate the credential was made for (or that accepted it),
		// Y another gate; Y, X, Y and X, Y, X
		replay := func(t *rapid.T) {
			cr := pickCred(t)
			xi := cr.mintedFor
			if len(cr.accepted) > 0 && rapid.Bool().Draw(t, "fromAccepting") {
				xi = cr.accepted[rapid.IntRange(0, len(cr.accepted)-1).Draw(t, "accepting")]
			}
			x := c.gates[xi]
			y := otherGate(t, cr, xi)
			if rapid.Bool().Draw(t, "otherFirst") {
				c.present(cr, y)
				c.present(cr, x)
				c.present(cr, y)
			} else {
				c.present(cr, x)
				c.present(cr, y)
				c.present(cr, x)
			}
		}
		swap := func(t *rapid.T) {
			var cs []*instCred
			for _, cr := range c.pool {
				if cr.kind == "cs" {
					cs = append(cs, cr)
				}
			}
			if len(cs) == 0 || len(c.pool) >= 14 {
				t.Skip("no signed request to derive from")
			}
			src := cs[rapid.IntRange(0, len(cs)-1).Draw(t, "source")]
			if rapid.Bool().Draw(t, "afterAcceptance") {
				c.present(src, c.gates[src.mintedFor])
			}
			cr := c.fpSwap(t, src)
			g := pickGate(t, "cs", "gate")
			c.present(cr, g)
			if rapid.Bool().Draw(t, "again") {
				c.present(src, c.gates[src.mintedFor])
				c.present(cr, g)
			}
		}
		advance := func(t *rapid.T) {
			if nj == 0 {
				t.Skip("no jwt gate")
			}
			d := rapid.SampledFrom([]int64{1, 59 * 60, 61 * 60, 2*3600 + 1, 31 * 24 * 3600, 11 * 365 * 24 * 3600}).Draw(t, "advance")
			vnow.Add(d)
			fmt.Fprintf(&c.log, "\n  clock +%ds", d)
		}
		c.mint(t, pickGate(t, "", "firstMintFor")) // every history has a credential to begin with
		t.Repeat(map[string]func(*rapid.T){
			"mint":    mint,
			"mint2":   mint,
			"present": present,
			"replay":  replay,
			"replay2": replay,
			"replay3": replay,
			"fp-swap": swap,
			"advance": advance,
			"":        func(*rapid.T) {},
		})
		if c.rejThenAcc > 0 {
			st.Class("cases-with/replay-rejected-then-accepted")
		}
		if c.accThenRej > 0 {
			st.Class("cases-with/replay-accepted-then-rejected")
			st.NonTrivial(c.log.String())
		}
	})
}
