//go:build verif

package mr_test

// Unit "scale": the same oracle as c10_test.go (no deadlock, outcome among the allowed ones,
// exactly-once for what was mapped, no goroutine of the call left once the user functions have
// returned), on plans that are two to four orders of magnitude larger than what genPlan produces:
// up to 2*10^5 items or mapper values, up to 256 workers, the fault on one of the first items (so
// that almost everything is still ungenerated and has to be drained), or a reducer that stops
// reading while thousands of values are still to be written.
//
// Sizes are not tuned to anything: the amount of work is log-uniform over [41, 4000) ("mid") or
// [4000, 200000] ("large"), its split into items x fan-out is log-uniform again, and the worker
// count is log-uniform over [1, 256].  How often the large class is drawn is the knob
// VERIF_SCALE_LARGE_PERMILLE (check.json).
//
// Nothing in here waits for a fixed time: the watchdogs are progress-based (a deadlock is "no user
// function made a step for 20 s"), so that a slow machine makes a case slow, not wrong.

import (
	"context"
	"errors"
	"fmt"
	"math"
	"runtime"
	"strings"
	"sync"
	"sync/atomic"
	"testing"
	"time"

	"github.com/zeromicro/go-zero/core/logx"
	"github.com/zeromicro/go-zero/core/mr"
	"github.com/zeromicro/go-zero/internal/verifkit"
	"pgregory.net/rapid"
)

const (
	scaleSmallMax = 40   // the largest item count of genPlan
	scaleLargeMin = 4000 // 100 x scaleSmallMax: the non-trivial bound
	scaleMax      = 200000
	// no user function made a step for this long although none of them waits for the harness
	scaleStall = 20 * time.Second
	// a case that is still making progress after this long is given up as inconclusive
	scaleGiveUp = 150 * time.Second
)

// scaleUniform draws a number that is uniform in [0,1) (rapid's integer generators prefer small
// values, which is wanted for "where is the fault" but not for "how often is a case large").
// It shrinks towards 0.
func scaleUniform(t *rapid.T, label string) float64 {
	bs := rapid.SliceOfN(rapid.Bool(), 16, 16).Draw(t, label)
	x := 0
	for _, b := range bs {
		x <<= 1
		if b {
			x |= 1
		}
	}
	return float64(x) / 65536
}

// scaleLogUniform draws from [lo, hi], uniform in the logarithm.
func scaleLogUniform(t *rapid.T, label string, lo, hi int) int {
	if hi <= lo {
		return lo
	}
	u := scaleUniform(t, label)
	n := int(math.Floor(float64(lo) * math.Pow(float64(hi+1)/float64(lo), u)))
	if n < lo {
		n = lo
	}
	if n > hi {
		n = hi
	}
	return n
}

type scalePlan struct {
	entry    string // MapReduce, MapReduceVoid, MapReduceChan, ForEach, Finish, FinishVoid
	scenario string // any, drain, fanout ("" for ForEach / Finish / FinishVoid)
	large    bool
	items   int
	fan     int
	workers int // 0 = option not given (16)
	// the one early fault
	fault string
	at    int // mapper / generator faults: the item; reducer faults: after that many values
	// what a reducer does after redCtxCancel / redEarlyOut: return, or read on
	redReturns bool
	// a second mapper fault: none, cancelErr, panic
	fault2 string
	at2    int
	// every gosched-th mapper invocation yields (0 = never): the mappers stay cheap
	gosched   int
	timeoutUs int
}

func (p scalePlan) String() string {
	return fmt.Sprintf("%s/%s items=%d fan=%d workers=%d fault=%s@%d (reducer returns=%v) fault2=%s@%d gosched=%d timeout=%dus",
		p.entry, p.scenario, p.items, p.fan, p.workers, p.fault, p.at, p.redReturns, p.fault2, p.at2, p.gosched, p.timeoutUs)
}

func (p scalePlan) values() int { return p.items * p.fan }

func (p scalePlan) isLarge() bool {
	return p.items >= scaleLargeMin || p.values() >= scaleLargeMin*3 // genPlan: at most 40 items x 3 values
}

var scaleMRFaults = []string{
	"none", "none", "nooutput",
	"mapCancelErr", "mapCancelNil", "mapPanic", "mapCtxCancel",
	"genPanic", "genCtxCancel",
	"redCancelErr", "redCancelNil", "redPanic", "redCtxCancel", "redReturn", "redEarlyOut",
	"ctxPre", "ctxTimeout",
}

var scaleDrainFaults = []string{
	"mapCancelErr", "mapCancelNil", "mapPanic", "mapCtxCancel", "genCtxCancel",
	"redCancelErr", "redCancelNil", "redPanic", "redCtxCancel", "ctxPre",
}

var scaleStopFaults = []string{"redReturn", "redEarlyOut", "redCancelErr", "redCancelNil", "redPanic", "redCtxCancel"}

// scalePick: uniform over the list (rapid's SampledFrom prefers the first entries)
func scalePick(t *rapid.T, label string, from []string) string {
	return from[int(scaleUniform(t, label)*float64(len(from)))]
}

func genScalePlan(t *rapid.T, largePermille int) scalePlan {
	p := scalePlan{fault2: "none"}
	p.entry = rapid.SampledFrom([]string{"MapReduce", "MapReduce", "MapReduceVoid", "MapReduceChan", "ForEach", "Finish", "FinishVoid"}).Draw(t, "entry")
	// large := the upper largePermille/1000 of a uniform draw (0 shrinks to "not large")
	p.large = scaleUniform(t, "sizeClass") >= 1-float64(largePermille)/1000
	work := 0
	if p.large {
		work = scaleLogUniform(t, "work", scaleLargeMin, scaleMax)
	} else {
		work = scaleLogUniform(t, "work", scaleSmallMax+1, scaleLargeMin-1)
	}
	// workers: log-uniform over [1,256]; sometimes the default or a value below the minimum
	switch rapid.SampledFrom([]string{"given", "given", "given", "given", "given", "given", "default", "below"}).Draw(t, "workersMode") {
	case "given":
		p.workers = scaleLogUniform(t, "workers", 1, 256)
	case "default":
		p.workers = 0
	case "below":
		p.workers = -1
	}
	p.gosched = rapid.SampledFrom([]int{0, 0, 1, 7, 64}).Draw(t, "gosched")
	mrEntry := strings.HasPrefix(p.entry, "MapReduce")
	if !mrEntry {
		p.items = work
		switch p.entry {
		case "ForEach":
			p.fault = rapid.SampledFrom([]string{"none", "none", "bodyPanic", "genPanic"}).Draw(t, "fault")
		case "Finish":
			p.fault = rapid.SampledFrom([]string{"none", "none", "bodyErr", "bodyPanic"}).Draw(t, "fault")
		case "FinishVoid":
			p.fault = rapid.SampledFrom([]string{"none", "none", "bodyPanic"}).Draw(t, "fault")
		}
		p.at = rapid.IntRange(0, min(p.items-1, 255)).Draw(t, "at")
		if p.entry == "Finish" && p.fault != "none" && rapid.Bool().Draw(t, "second") {
			p.fault2 = map[string]string{"bodyErr": "bodyPanic", "bodyPanic": "bodyErr"}[p.fault]
			p.at2 = rapid.IntRange(0, min(p.items-1, 255)).Draw(t, "at2")
		}
		return p
	}
	// Three kinds of plan, equally likely at every size:
	//  any    - every shape, every fault of the list
	//  drain  - many items, the fault on one of the first: the rest is ungenerated and has to be drained
	//  fanout - few items with a large fan-out, and a reducer that stops reading early: the mappers'
	//           remaining values are in flight or blocked in Write
	p.scenario = scalePick(t, "scenario", []string{"any", "drain", "fanout"})
	shape := rapid.SampledFrom([]string{"items", "items", "spread", "spread", "nofan"}).Draw(t, "shape")
	faults := scaleMRFaults
	switch p.scenario {
	case "drain":
		faults = scaleDrainFaults
		if shape == "spread" {
			shape = "items"
		}
	case "fanout":
		faults = scaleStopFaults
		shape = "spread"
	}
	// the work is split into items x fan-out
	switch shape {
	case "items":
		p.items, p.fan = work, 1
	case "nofan":
		p.items, p.fan = work, 0
	case "spread":
		p.items = scaleLogUniform(t, "items", 1, work)
		p.fan = max(1, work/p.items)
	}
	p.fault = scalePick(t, "fault", faults)
	if p.entry == "MapReduceChan" && p.fault == "genPanic" {
		p.fault = "genCtxCancel" // the source is fed by the caller: a panic there is not the library's business
	}
	if p.entry == "MapReduceVoid" && (p.fault == "redEarlyOut" || p.fault == "nooutput") {
		p.fault = "redReturn" // a void reducer has nothing to write
	}
	switch {
	case strings.HasPrefix(p.fault, "red"):
		// after that many values; 0 = before reading anything.  Always reachable: at <= values.
		p.at = rapid.IntRange(0, min(p.values(), 2000)).Draw(t, "at")
	default:
		p.at = rapid.IntRange(0, min(p.items-1, 255)).Draw(t, "at")
	}
	p.redReturns = rapid.Bool().Draw(t, "redReturns") || p.scenario == "fanout"
	if p.fault != "none" && p.fault != "nooutput" && rapid.IntRange(0, 3).Draw(t, "second") == 0 {
		p.fault2 = rapid.SampledFrom([]string{"cancelErr", "panic"}).Draw(t, "fault2")
		p.at2 = rapid.IntRange(0, min(p.items-1, 255)).Draw(t, "at2")
	}
	if p.fault == "ctxTimeout" {
		p.timeoutUs = rapid.IntRange(0, 5000).Draw(t, "timeoutUs")
	}
	return p
}

// scaleProgress: every step of a user function bumps it; the watchdogs look at nothing else.
type scaleProgress struct{ n atomic.Int64 }

func (s *scaleProgress) step() { s.n.Add(1) }

// scaleWait polls cond; false = no user function made a step for scaleStall.  giveUp = still
// progressing after scaleGiveUp.
func scaleWait(pr *scaleProgress, cond func() bool) (ok, giveUp bool) {
	start := time.Now()
	last, lastChange := pr.n.Load(), start
	pause := 200 * time.Microsecond
	for {
		if cond() {
			return true, false
		}
		time.Sleep(pause)
		if pause < 20*time.Millisecond {
			pause *= 2
		}
		now := time.Now()
		if n := pr.n.Load(); n != last {
			last, lastChange = n, now
		} else if now.Sub(lastChange) > scaleStall {
			return false, false
		}
		if now.Sub(start) > scaleGiveUp {
			return false, true
		}
	}
}

// scaleLeakScan: once the user functions have returned, no goroutine with a core/mr frame that did
// not exist before the call may remain.  Polled for 10 s (a real leak never goes away).
func scaleLeakScan(baseline map[int]string) []string {
	deadline := time.Now().Add(10 * time.Second)
	pause := 300 * time.Microsecond
	for {
		left := newOnes(mrGoroutines(), baseline)
		if len(left) == 0 || time.Now().After(deadline) {
			return left
		}
		time.Sleep(pause)
		if pause < 50*time.Millisecond {
			pause *= 2
		}
	}
}

func scaleTrim(gs []string) string {
	if len(gs) > 6 {
		return strings.Join(gs[:6], "\n\n") + fmt.Sprintf("\n\n... and %d more", len(gs)-6)
	}
	return strings.Join(gs, "\n\n")
}

func scaleDecade(n int) string {
	switch {
	case n < 100:
		return "<1e2"
	case n < 1000:
		return "1e2-1e3"
	case n < 10000:
		return "1e3-1e4"
	case n < 100000:
		return "1e4-1e5"
	}
	return ">=1e5"
}

// runScaleMR executes one MapReduce / MapReduceVoid / MapReduceChan plan; true = judged.
func runScaleMR(t *rapid.T, st *verifkit.Stats, p scalePlan) bool {
	baseline := mrGoroutines()
	ctx, cancelCtx := context.WithCancel(context.Background())
	ctxMode := false // the context may end
	switch p.fault {
	case "mapCtxCancel", "genCtxCancel", "redCtxCancel":
		ctxMode = true
	case "ctxPre":
		ctxMode = true
		cancelCtx()
	case "ctxTimeout":
		ctxMode = true
		cancelCtx()
		ctx, cancelCtx = context.WithTimeout(context.Background(), time.Duration(p.timeoutUs)*time.Microsecond)
	}
	defer cancelCtx()
	opts := []mr.Option{mr.WithContext(ctx)}
	if p.workers != 0 {
		opts = append(opts, mr.WithWorkers(p.workers))
	}
	effWorkers := p.workers
	if p.workers == 0 {
		effWorkers = 16
	}
	if effWorkers < 1 {
		effWorkers = 1
	}
	var pr scaleProgress
	mappedCnt := make([]int32, p.items)
	writtenFlag := make([]int32, p.values())
	reducedCnt := make([]int32, p.values())
	var nGenerated, nMapped, nWritten, nReduced atomic.Int64
	var inMapper, maxMapper atomic.Int32
	var genReturned, redReturned atomic.Bool
	var panicRaised, ctxEndedByUser, outSet atomic.Bool
	var badItem, badValue atomic.Int64 // something that was never generated / written (+1, 0 = none)
	var outVal atomic.Int64
	var remainingAtFault, outstandingAtStop atomic.Int64
	remainingAtFault.Store(-1)
	outstandingAtStop.Store(-1)
	var mu sync.Mutex
	var cancelErrs []error
	noteCancel := func(e error) {
		mu.Lock()
		cancelErrs = append(cancelErrs, e)
		mu.Unlock()
		remainingAtFault.CompareAndSwap(-1, int64(p.items)-nGenerated.Load())
	}
	raise := func(msg string) {
		remainingAtFault.CompareAndSwap(-1, int64(p.items)-nGenerated.Load())
		panicRaised.Store(true)
		panic(msg)
	}
	endCtx := func() {
		remainingAtFault.CompareAndSwap(-1, int64(p.items)-nGenerated.Load())
		ctxEndedByUser.Store(true)
		cancelCtx()
	}
	produce := func(src chan<- int, mayPanic bool) {
		for i := 0; i < p.items; i++ {
			if i == p.at {
				switch {
				case p.fault == "genPanic" && mayPanic:
					raise("gen-panic")
				case p.fault == "genCtxCancel":
					endCtx()
				}
			}
			src <- i
			nGenerated.Add(1)
			pr.step()
		}
	}
	generate := func(src chan<- int) {
		defer genReturned.Store(true)
		produce(src, true)
	}
	mapper := func(item int, w mr.Writer[int], cancelFn func(error)) {
		c := inMapper.Add(1)
		for {
			m := maxMapper.Load()
			if c <= m || maxMapper.CompareAndSwap(m, c) {
				break
			}
		}
		defer inMapper.Add(-1)
		defer pr.step()
		if item < 0 || item >= p.items {
			badItem.Store(int64(item) + 1)
			return
		}
		atomic.AddInt32(&mappedCnt[item], 1)
		nMapped.Add(1)
		if p.gosched > 0 && item%p.gosched == 0 {
			runtime.Gosched()
		}
		if item == p.at {
			switch p.fault {
			case "mapCancelErr":
				noteCancel(errMap1)
				cancelFn(errMap1)
				return
			case "mapCancelNil":
				noteCancel(mr.ErrCancelWithNil)
				cancelFn(nil)
				return
			case "mapPanic":
				raise(fmt.Sprintf("map-panic-%d", item))
			case "mapCtxCancel":
				endCtx()
			}
		}
		if item == p.at2 {
			switch p.fault2 {
			case "cancelErr":
				noteCancel(errMap2)
				cancelFn(errMap2)
				return
			case "panic":
				raise(fmt.Sprintf("map-panic-%d", item))
			}
		}
		for k := 0; k < p.fan; k++ {
			v := item*p.fan + k
			atomic.StoreInt32(&writtenFlag[v], 1)
			w.Write(v)
			nWritten.Add(1)
			pr.step()
		}
	}
	// write == nil: void reducer
	reduce := func(pipe <-chan int, write func(int), cancelFn func(error)) {
		defer redReturned.Store(true)
		defer pr.step()
		n := 0
		wrote := false
		// what the reducer does once it has seen p.at values; true = it returns
		act := func() bool {
			if p.fault != "redEarlyOut" && (p.fault != "redCtxCancel" || p.redReturns) {
				outstandingAtStop.Store(int64(p.values()) - nWritten.Load())
			}
			switch p.fault {
			case "redCancelErr":
				noteCancel(errRed)
				cancelFn(errRed)
				return true
			case "redCancelNil":
				noteCancel(mr.ErrCancelWithNil)
				cancelFn(nil)
				return true
			case "redPanic":
				raise("red-panic")
			case "redCtxCancel":
				endCtx()
				return p.redReturns
			case "redReturn":
				return true
			case "redEarlyOut":
				if write != nil {
					wrote = true
					write(n)
				}
				if p.redReturns {
					outstandingAtStop.Store(int64(p.values()) - nWritten.Load())
				}
				return p.redReturns
			}
			return false
		}
		if p.at == 0 && strings.HasPrefix(p.fault, "red") && act() {
			return
		}
		for v := range pipe {
			if v < 0 || v >= len(reducedCnt) {
				badValue.Store(int64(v) + 1)
				continue
			}
			atomic.AddInt32(&reducedCnt[v], 1)
			nReduced.Add(1)
			pr.step()
			n++
			if n == p.at && strings.HasPrefix(p.fault, "red") && act() {
				return
			}
		}
		if p.fault != "nooutput" && !wrote && write != nil {
			write(n)
		}
	}
	reducer := func(pipe <-chan int, w mr.Writer[int], cancelFn func(error)) {
		reduce(pipe, func(v int) {
			outVal.Store(int64(v))
			outSet.Store(true)
			w.Write(v)
		}, cancelFn)
	}
	voidReducer := func(pipe <-chan int, cancelFn func(error)) { reduce(pipe, nil, cancelFn) }

	prodDone := make(chan struct{})
	resCh := make(chan outcome, 1)
	var o outcome
	go func() {
		var r outcome
		defer func() {
			if x := recover(); x != nil {
				r.pan = x
			}
			resCh <- r
		}()
		switch p.entry {
		case "MapReduce":
			r.val, r.err = mr.MapReduce(generate, mapper, reducer, opts...)
		case "MapReduceVoid":
			r.err = mr.MapReduceVoid(generate, mapper, voidReducer, opts...)
		case "MapReduceChan":
			src := make(chan int)
			go func() {
				defer close(prodDone)
				defer genReturned.Store(true)
				defer close(src)
				produce(src, false)
			}()
			r.val, r.err = mr.MapReduceChan(src, mapper, reducer, opts...)
		}
	}()
	// 1. the call returns
	ok, giveUp := scaleWait(&pr, func() bool {
		select {
		case o = <-resCh:
			return true
		default:
			return false
		}
	})
	if giveUp {
		st.Note("inconclusive (still making progress after %v, call not returned): %v", scaleGiveUp, p)
		st.Class("inconclusive")
		return false
	}
	if !ok {
		t.Fatalf("DEADLOCK: the call has not returned and no user function has made a step for %v (generated %d of %d, mapped %d, written %d, reduced %d; generator returned=%v reducer returned=%v mappers running=%d); plan: %v\ncore/mr goroutines:\n%s",
			scaleStall, nGenerated.Load(), p.items, nMapped.Load(), nWritten.Load(), nReduced.Load(), genReturned.Load(), redReturned.Load(), inMapper.Load(), p,
			scaleTrim(newOnes(mrGoroutines(), baseline)))
	}
	ctxErrAtReturn := ctx.Err()
	// 2. the user functions can finish: whatever was not consumed is drained, nothing stays blocked in Write
	ok, giveUp = scaleWait(&pr, func() bool { return genReturned.Load() && redReturned.Load() && inMapper.Load() == 0 })
	if giveUp {
		st.Note("inconclusive (still making progress %v after the call returned): %v", scaleGiveUp, p)
		st.Class("inconclusive")
		return false
	}
	if !ok {
		t.Fatalf("STUCK: the call returned %s but its user functions cannot finish, no step for %v: generator returned=%v (generated %d of %d: the source is not drained), reducer returned=%v, mappers still running=%d (mapped %d, written %d of %d, reduced %d); plan: %v\ncore/mr goroutines:\n%s",
			scaleOutcome(o), scaleStall, genReturned.Load(), nGenerated.Load(), p.items, redReturned.Load(), inMapper.Load(), nMapped.Load(), nWritten.Load(), p.values(), nReduced.Load(), p,
			scaleTrim(newOnes(mrGoroutines(), baseline)))
	}
	// 3. nothing started by the call remains
	if left := scaleLeakScan(baseline); len(left) > 0 {
		t.Fatalf("LEAK: %d goroutine(s) started by the call are still alive 10 s after it returned %s and every user function had returned; plan: %v\n%s",
			len(left), scaleOutcome(o), p, scaleTrim(left))
	}
	// 4. exactly-once for what was mapped / reduced
	if b := badItem.Load(); b != 0 {
		t.Fatalf("the mapper saw item %d, which was never generated; plan: %v", b-1, p)
	}
	if b := badValue.Load(); b != 0 {
		t.Fatalf("the reducer received %d, which no mapper wrote; plan: %v", b-1, p)
	}
	mappedDistinct := 0
	for i, c := range mappedCnt {
		if c > 1 {
			t.Fatalf("item %d was handed to the mapper %d times; plan: %v", i, c, p)
		}
		if c == 1 {
			mappedDistinct++
		}
	}
	reducedDistinct, writtenDistinct := 0, 0
	for v, c := range reducedCnt {
		w := writtenFlag[v]
		if int(c) > int(w) {
			t.Fatalf("the reducer received value %d %d time(s), it was written %d time(s); plan: %v", v, c, w, p)
		}
		reducedDistinct += int(c)
		writtenDistinct += int(w)
	}
	if m := int(maxMapper.Load()); m > effWorkers {
		t.Fatalf("%d mappers ran concurrently, configured workers %d; plan: %v", m, effWorkers, p)
	}
	// 5. the outcome
	mu.Lock()
	defer mu.Unlock()
	earlyOut := p.fault == "redEarlyOut"
	stopsReading := p.fault == "redReturn" || (earlyOut && p.redReturns)
	void := p.entry == "MapReduceVoid"
	// nothing was cancelled (no cancel call, no panic, the context alive when the call returned):
	// every item was mapped exactly once, and a reducer that keeps reading has received every value
	nothingEnded := !panicRaised.Load() && len(cancelErrs) == 0 && ctxErrAtReturn == nil
	requireComplete := func() {
		if mappedDistinct != p.items {
			t.Fatalf("nothing was cancelled, %d items generated, but only %d handed to the mapper (first missing: %d); outcome %s; plan: %v",
				p.items, mappedDistinct, scaleFirstZero(mappedCnt), scaleOutcome(o), p)
		}
		if reducedDistinct != p.values() || writtenDistinct != p.values() {
			t.Fatalf("nothing was cancelled, the mappers wrote %d values (planned %d), the reducer received %d (first missing: %d); outcome %s; plan: %v",
				writtenDistinct, p.values(), reducedDistinct, scaleFirstZero(reducedCnt), scaleOutcome(o), p)
		}
	}
	switch {
	case o.pan != nil:
		s := fmt.Sprint(o.pan)
		planned := (p.fault == "mapPanic" && s == fmt.Sprintf("map-panic-%d", p.at)) ||
			(p.fault2 == "panic" && s == fmt.Sprintf("map-panic-%d", p.at2)) ||
			(p.fault == "redPanic" && s == "red-panic") || (p.fault == "genPanic" && s == "gen-panic")
		if !planned || !panicRaised.Load() {
			t.Fatalf("a panic surfaced that no user function raised: %v; plan: %v", o.pan, p)
		}
		st.Class("outcome:panic")
	case o.err != nil:
		ok := false
		if ctxMode && (errors.Is(o.err, context.DeadlineExceeded) || errors.Is(o.err, context.Canceled)) {
			// only if the context has ended
			if ctxErrAtReturn == nil {
				t.Fatalf("the call returned the context error %v, but the context had not ended; plan: %v", o.err, p)
			}
			ok = true
		}
		for _, e := range cancelErrs {
			if errors.Is(o.err, e) {
				ok = true
			}
		}
		if errors.Is(o.err, mr.ErrReduceNoOutput) && !void && (p.fault == "nooutput" || p.fault == "redReturn") {
			ok = true
		}
		if !ok {
			t.Fatalf("the call returned error %v, which is neither an error passed to cancel (%v) nor a context error (context may end: %v) nor a reducer without output; plan: %v",
				o.err, cancelErrs, ctxMode, p)
		}
		if errors.Is(o.err, mr.ErrReduceNoOutput) && nothingEnded && !stopsReading {
			requireComplete()
			st.Class("outcome:complete (no output)")
		}
		st.Class("outcome:error")
	default:
		// a normal result is legal only if no user function panicked, nobody cancelled and the context
		// had not ended before the reducer handed over its output.  A reducer that writes at the end
		// does so after the pipe was closed, i.e. after every mapper invocation (the cancelling one
		// included) and, for a context ended by the generator, after the source was closed.
		if panicRaised.Load() && !earlyOut {
			t.Fatalf("SWALLOWED PANIC: a user function panicked but the call returned normally (%v, nil); plan: %v", o.val, p)
		}
		if len(cancelErrs) > 0 && !earlyOut {
			t.Fatalf("cancel(%v) was called but the call returned normally (%v, nil); plan: %v", cancelErrs, o.val, p)
		}
		if (ctxEndedByUser.Load() || p.fault == "ctxPre") && !earlyOut {
			t.Fatalf("the context had ended before the reducer's output (ended by %s) but the call returned normally (%v, nil); plan: %v", p.fault, o.val, p)
		}
		if !void {
			if p.fault == "nooutput" || p.fault == "redReturn" {
				t.Fatalf("normal result %d although the reducer wrote nothing; plan: %v", o.val, p)
			}
			if !outSet.Load() || int64(o.val) != outVal.Load() {
				t.Fatalf("normal result %d, the reducer's output was %d (written: %v); plan: %v", o.val, outVal.Load(), outSet.Load(), p)
			}
		}
		if nothingEnded && !stopsReading {
			requireComplete()
			if !void && !earlyOut && o.val != p.values() {
				t.Fatalf("result %d, the reducer counted %d values; plan: %v", o.val, p.values(), p)
			}
			st.Class("outcome:complete")
		} else {
			st.Class("outcome:normal (reducer stopped reading / context ended later)")
		}
	}
	if p.isLarge() {
		if r := remainingAtFault.Load(); r >= 10000 {
			st.Class("large: >=1e4 items still ungenerated when the fault fired")
		}
		if r := outstandingAtStop.Load(); r >= 10000 {
			st.Class("large: >=1e4 values still unwritten when the reducer stopped reading")
		}
	}
	return true
}

func scaleOutcome(o outcome) string {
	return fmt.Sprintf("(value %d, error %v, panic %v)", o.val, o.err, o.pan)
}

func scaleFirstZero(a []int32) int {
	for i, c := range a {
		if c == 0 {
			return i
		}
	}
	return -1
}

var errScaleFinish = errors.New("finish error (scale)")

// runScaleForEach: ForEach / Finish / FinishVoid with many items; true = judged.
func runScaleForEach(t *rapid.T, st *verifkit.Stats, p scalePlan) bool {
	baseline := mrGoroutines()
	var pr scaleProgress
	seen := make([]int32, p.items)
	var in, maxIn atomic.Int32
	var panicRaised, errReturned atomic.Bool
	body := func(i int) error {
		c := in.Add(1)
		for {
			m := maxIn.Load()
			if c <= m || maxIn.CompareAndSwap(m, c) {
				break
			}
		}
		defer in.Add(-1)
		defer pr.step()
		atomic.AddInt32(&seen[i], 1)
		if p.gosched > 0 && i%p.gosched == 0 {
			runtime.Gosched()
		}
		for _, f := range [2]fault{{p.fault, p.at}, {p.fault2, p.at2}} {
			if f.at != i {
				continue
			}
			switch f.kind {
			case "bodyPanic":
				panicRaised.Store(true)
				panic(fmt.Sprintf("body-panic-%d", i))
			case "bodyErr":
				errReturned.Store(true)
				return errScaleFinish
			}
		}
		return nil
	}
	var genReturned atomic.Bool
	var pan any
	var err error
	done := make(chan struct{})
	go func() {
		defer close(done)
		defer func() { pan = recover() }()
		switch p.entry {
		case "ForEach":
			var opts []mr.Option
			if p.workers != 0 {
				opts = append(opts, mr.WithWorkers(p.workers))
			}
			mr.ForEach(func(src chan<- int) {
				defer genReturned.Store(true)
				for i := 0; i < p.items; i++ {
					if p.fault == "genPanic" && i == p.at {
						panicRaised.Store(true)
						panic("gen-panic")
					}
					src <- i
					pr.step()
				}
			}, func(i int) { body(i) }, opts...)
		case "Finish":
			fns := make([]func() error, p.items)
			for i := range fns {
				i := i
				fns[i] = func() error { return body(i) }
			}
			genReturned.Store(true)
			err = mr.Finish(fns...)
		case "FinishVoid":
			fns := make([]func(), p.items)
			for i := range fns {
				i := i
				fns[i] = func() { body(i) }
			}
			genReturned.Store(true)
			mr.FinishVoid(fns...)
		}
	}()
	ok, giveUp := scaleWait(&pr, func() bool {
		select {
		case <-done:
			return true
		default:
			return false
		}
	})
	if giveUp {
		st.Note("inconclusive (still making progress after %v): %v", scaleGiveUp, p)
		st.Class("inconclusive")
		return false
	}
	if !ok {
		t.Fatalf("DEADLOCK: the call has not returned and no user function has made a step for %v (bodies running=%d); plan: %v\ncore/mr goroutines:\n%s",
			scaleStall, in.Load(), p, scaleTrim(newOnes(mrGoroutines(), baseline)))
	}
	if ok, giveUp = scaleWait(&pr, func() bool { return in.Load() == 0 && genReturned.Load() }); !ok {
		if giveUp {
			st.Note("inconclusive (still making progress %v after the call returned): %v", scaleGiveUp, p)
			st.Class("inconclusive")
			return false
		}
		t.Fatalf("STUCK: the call returned (panic %v, err %v) but its user functions cannot finish, no step for %v: generator returned=%v (the source is not drained), bodies still running=%d; plan: %v\ncore/mr goroutines:\n%s",
			pan, err, scaleStall, genReturned.Load(), in.Load(), p, scaleTrim(newOnes(mrGoroutines(), baseline)))
	}
	if left := scaleLeakScan(baseline); len(left) > 0 {
		t.Fatalf("LEAK: %d goroutine(s) started by the call are still alive 10 s after it returned (panic %v, err %v) and every user function had returned; plan: %v\n%s",
			len(left), pan, err, p, scaleTrim(left))
	}
	distinct := 0
	for i, c := range seen {
		if c > 1 {
			t.Fatalf("%s: item %d processed %d times; plan: %v", p.entry, i, c, p)
		}
		distinct += int(c)
	}
	eff := p.workers
	if p.entry != "ForEach" {
		eff = p.items
	} else if p.workers == 0 {
		eff = 16
	}
	if eff < 1 {
		eff = 1
	}
	if m := int(maxIn.Load()); m > eff {
		t.Fatalf("%s: %d bodies ran concurrently, cap %d; plan: %v", p.entry, m, eff, p)
	}
	switch {
	case pan != nil:
		s := fmt.Sprint(pan)
		planned := (p.fault == "bodyPanic" && s == fmt.Sprintf("body-panic-%d", p.at)) || (p.fault2 == "bodyPanic" && s == fmt.Sprintf("body-panic-%d", p.at2)) ||
			(p.fault == "genPanic" && s == "gen-panic")
		if !planned || !panicRaised.Load() {
			t.Fatalf("%s: a panic surfaced that no user function raised: %v; plan: %v", p.entry, pan, p)
		}
		st.Class("outcome:panic")
	case err != nil:
		if !errors.Is(err, errScaleFinish) || !errReturned.Load() {
			t.Fatalf("%s returned %v, which no function returned; plan: %v", p.entry, err, p)
		}
		st.Class("outcome:error")
	default:
		if panicRaised.Load() {
			t.Fatalf("SWALLOWED PANIC: %s returned normally although a user function panicked; plan: %v", p.entry, p)
		}
		if errReturned.Load() {
			t.Fatalf("Finish returned nil although a function returned an error; plan: %v", p)
		}
		if distinct != p.items {
			t.Fatalf("%s: nothing failed, %d items, only %d processed (first missing: %d); plan: %v", p.entry, p.items, distinct, scaleFirstZero(seen), p)
		}
		st.Class("outcome:complete")
	}
	return true
}

func TestVerifC10Scale(t *testing.T) {
	logx.Disable()
	st := verifkit.New("scale")
	defer st.Flush()
	largePermille := verifkit.EnvInt("scale_large_permille", 40)
	rapid.Check(t, func(t *rapid.T) {
		st.Eval()
		p := genScalePlan(t, largePermille)
		var judged bool
		if strings.HasPrefix(p.entry, "MapReduce") {
			judged = runScaleMR(t, st, p)
		} else {
			judged = runScaleForEach(t, st, p)
		}
		if !judged {
			return
		}
		st.Class("entry:" + p.entry)
		st.Class("fault:" + p.fault)
		if p.scenario != "" {
			st.Class("scenario:" + p.scenario)
		}
		st.Class("items:" + scaleDecade(p.items))
		if p.values() > 0 {
			st.Class("values:" + scaleDecade(p.values()))
		}
		switch {
		case p.workers >= 128:
			st.Class("workers:128-256")
		case p.workers >= 17:
			st.Class("workers:17-127")
		}
		if p.isLarge() {
			st.Class("large (>= 4000 items or >= 12000 values)")
			st.NonTrivial(p.String())
		}
	})
}
