//go:build verif

package mr_test

import (
	"context"
	"errors"
	"fmt"
	"runtime"
	"sort"
	"strconv"
	"strings"
	"sync"
	"sync/atomic"
	"testing"
	"time"

	"github.com/zeromicro/go-zero/core/lang"
	"github.com/zeromicro/go-zero/core/logx"
	"github.com/zeromicro/go-zero/core/mr"
	"github.com/zeromicro/go-zero/internal/verifkit"
	"pgregory.net/rapid"
)

// goroutines (id -> stack) that have a frame inside core/mr
func mrGoroutines() map[int]string {
	buf := make([]byte, 8<<20)
	n := runtime.Stack(buf, true)
	out := map[int]string{}
	for _, g := range strings.Split(string(buf[:n]), "\n\n") {
		if !strings.Contains(g, "go-zero/core/mr.") {
			continue
		}
		// "goroutine 123 [chan send]:"
		f := strings.Fields(g)
		if len(f) < 2 {
			continue
		}
		id, err := strconv.Atoi(f[1])
		if err != nil {
			continue
		}
		out[id] = g
	}
	return out
}

type fault struct {
	kind string // none, cancelErr, cancelNil, panic, stall
	at   int
}

type plan struct {
	entry          string // MapReduce, MapReduceVoid, MapReduceChan
	nItems         int
	workers        int // 0 = option not given (default 16)
	fan            int
	mapFaults      [2]fault
	redFault       fault // none, cancelErr, cancelNil, panic, nooutput
	genPanicAt     int   // -1 = never
	genStallAt     int   // -1 = never; else the generator waits for the harness' gate before producing item i (or before returning)
	redEarlyAt     int   // -1 = the reducer writes its output after the pipe is closed; else after that many values ("first results win")
	redEarlyReturn bool  // after an early output the reducer returns instead of reading the rest of the pipe
	ctxMode        string
	ctxDelayUs     int
	jitter         int
	yieldSeed      uint64
}

func (p plan) String() string {
	return fmt.Sprintf("%s items=%d workers=%d fan=%d map=%v red=%v genPanicAt=%d genStallAt=%d redEarly=%d/%v ctx=%s/%dus jitter=%d",
		p.entry, p.nItems, p.workers, p.fan, p.mapFaults, p.redFault, p.genPanicAt, p.genStallAt, p.redEarlyAt, p.redEarlyReturn, p.ctxMode, p.ctxDelayUs, p.jitter)
}

func (p plan) anyFault() bool {
	return p.mapFaults[0].kind != "none" || p.mapFaults[1].kind != "none" || p.redFault.kind != "none" ||
		p.genPanicAt >= 0 || p.ctxMode != "none" || p.redEarlyAt >= 0
}

func genPlan(t *rapid.T) plan {
	p := plan{}
	p.entry = rapid.SampledFrom([]string{"MapReduce", "MapReduce", "MapReduceVoid", "MapReduceChan"}).Draw(t, "entry")
	p.nItems = rapid.IntRange(0, 40).Draw(t, "items")
	p.workers = rapid.IntRange(-1, 8).Draw(t, "workers")
	p.fan = rapid.IntRange(0, 3).Draw(t, "fanout")
	p.mapFaults[0] = fault{rapid.SampledFrom([]string{"none", "none", "cancelErr", "cancelNil", "panic", "stall"}).Draw(t, "mapFault"), rapid.IntRange(0, 40).Draw(t, "mapAt")}
	p.mapFaults[1] = fault{rapid.SampledFrom([]string{"none", "none", "none", "panic", "cancelErr", "stall"}).Draw(t, "mapFault2"), rapid.IntRange(0, 40).Draw(t, "mapAt2")}
	p.redFault = fault{rapid.SampledFrom([]string{"none", "none", "none", "cancelErr", "cancelNil", "panic", "nooutput"}).Draw(t, "redFault"), rapid.IntRange(0, 60).Draw(t, "redAt")}
	p.genPanicAt = rapid.SampledFrom([]int{-1, -1, -1, 0, 1, 3, 10}).Draw(t, "genPanicAt")
	if p.entry == "MapReduceChan" {
		p.genPanicAt = -1 // the source channel is fed by the caller, there is no generator function
	}
	p.ctxMode = rapid.SampledFrom([]string{"none", "none", "timeout", "cancel", "preCancelled"}).Draw(t, "ctx")
	p.ctxDelayUs = rapid.IntRange(0, 3000).Draw(t, "ctxDelayUs")
	p.jitter = rapid.IntRange(0, 3).Draw(t, "jitter")
	// time and order: a generator that is slow to produce its next item, a reducer that hands over
	// its result before it has seen everything
	p.genStallAt = rapid.SampledFrom([]int{-1, -1, -1, -1, 0, 1, 2, 5}).Draw(t, "genStallAt")
	if p.entry == "MapReduceChan" {
		p.genStallAt = -1
	}
	p.redEarlyAt = rapid.SampledFrom([]int{-1, -1, -1, -1, 0, 0, 1, 3}).Draw(t, "redEarlyAt")
	p.redEarlyReturn = rapid.Bool().Draw(t, "redEarlyReturn")
	if p.entry == "MapReduceVoid" || p.redFault.kind == "nooutput" {
		p.redEarlyAt = -1
	}
	return p
}

// c10Margin: how long a reducer with an early output waits after a cancel call has begun before it
// hands its output over (the call must then report the cancellation).  The only thing that has to
// happen inside that span on correct code is the first statement of cancel.
const c10Margin = 400 * time.Millisecond

// c10PanicMargin: a panic raised at least this long before the call returned must have been seen by it
// (publishing a recovered panic takes a few instructions).
const c10PanicMargin = 100 * time.Millisecond

type outcome struct {
	val int
	err error
	pan any
}

// the errors passed to cancel deliberately have three different dynamic types (callers pass
// whatever error they have): a second cancel with another type must be as harmless as the first
type c10ValueErr struct{ msg string }

func (e c10ValueErr) Error() string { return e.msg }

type c10PtrErr struct{ code int }

func (e *c10PtrErr) Error() string { return fmt.Sprintf("cancelled by reducer (%d)", e.code) }

var (
	errMap1 error = errors.New("cancelled by mapper (fault 1)")
	errMap2 error = c10ValueErr{"cancelled by mapper (fault 2)"}
	errRed  error = &c10PtrErr{7}
)

// runPlan executes one plan against the real code and applies the oracle.
func runPlan(t *rapid.T, st *verifkit.Stats, p plan) {
	baseline := mrGoroutines()
	ctx := context.Background()
	var cancel context.CancelFunc = func() {}
	switch p.ctxMode {
	case "timeout":
		ctx, cancel = context.WithTimeout(ctx, time.Duration(p.ctxDelayUs)*time.Microsecond)
	case "cancel":
		ctx, cancel = context.WithCancel(ctx)
	case "preCancelled":
		ctx, cancel = context.WithCancel(ctx)
		cancel()
	}
	defer cancel()
	release := make(chan struct{})
	prodDone := make(chan struct{}) // closed when the caller-side producer of MapReduceChan has finished
	var inMapper, maxMapper int32
	var inFlightAtFault int32
	var panicRaised int32 // set just before a user function panics
	var mu sync.Mutex
	mapped := map[int]int{}
	var reduced []int
	var written []int
	var cancelErrs []error
	// early output: wall-clock instant (ns) of the first cancel invocation, the value handed to the
	// writer, and whether that happened at least c10Margin after a cancel call had begun
	var cancelInvokedAt, outWritten, panicAtNs int64
	var outWrittenSet, lateOutput, panicAfterOutput int32
	// a user function about to panic after the reducer's (early) output was handed over gives the
	// caller a moment to take that output first: the panic must still reach the caller
	afterOutput := func() {
		if atomic.LoadInt32(&outWrittenSet) == 1 {
			time.Sleep(2 * time.Millisecond)
			atomic.StoreInt32(&panicAfterOutput, 1)
		}
		atomic.CompareAndSwapInt64(&panicAtNs, 0, time.Now().UnixNano())
	}
	// ... and a function that cancels after such a panic lets the panic get published first
	// (c10PanicMargin), so that "panicked, then cancelled, then the call returned" is an order the
	// oracle may judge
	beforeCancel := func() {
		if atomic.LoadInt32(&panicAfterOutput) == 1 {
			time.Sleep(c10PanicMargin + 10*time.Millisecond)
		}
	}
	mapperCancels := false
	for _, f := range p.mapFaults {
		if strings.HasPrefix(f.kind, "cancel") && f.at < p.nItems && (p.genStallAt < 0 || f.at < p.genStallAt) {
			mapperCancels = true
		}
	}
	stampCancel := func() { atomic.CompareAndSwapInt64(&cancelInvokedAt, 0, time.Now().UnixNano()) }
	opts := []mr.Option{mr.WithContext(ctx)}
	if p.workers != 0 {
		opts = append(opts, mr.WithWorkers(p.workers))
	}
	effWorkers := p.workers
	if p.workers == 0 {
		effWorkers = 16
	}
	if effWorkers < 1 {
		effWorkers = 1
	}
	noteFault := func() {
		if c := atomic.LoadInt32(&inMapper); c > 1 {
			atomic.StoreInt32(&inFlightAtFault, c)
		}
	}
	jit := func(n int) {
		switch p.jitter {
		case 1:
			for i := 0; i < n%7; i++ {
				runtime.Gosched()
			}
		case 2:
			time.Sleep(time.Duration(n%5) * 20 * time.Microsecond)
		case 3:
			x := 0
			for i := 0; i < (n%9)*300; i++ {
				x += i
			}
			_ = x
		}
	}
	generate := func(src chan<- int) {
		for i := 0; i < p.nItems; i++ {
			if i == p.genStallAt {
				<-release
			}
			if i == p.genPanicAt {
				afterOutput()
				atomic.StoreInt32(&panicRaised, 1)
				panic("gen-panic")
			}
			src <- i
		}
		if p.genStallAt >= p.nItems {
			<-release
		}
		if p.genPanicAt >= p.nItems {
			afterOutput()
			atomic.StoreInt32(&panicRaised, 1)
			panic("gen-panic")
		}
	}
	mapper := func(item int, w mr.Writer[int], cancelFn func(error)) {
		c := atomic.AddInt32(&inMapper, 1)
		for {
			m := atomic.LoadInt32(&maxMapper)
			if c <= m || atomic.CompareAndSwapInt32(&maxMapper, m, c) {
				break
			}
		}
		defer atomic.AddInt32(&inMapper, -1)
		mu.Lock()
		mapped[item]++
		mu.Unlock()
		jit(item)
		for i, f := range p.mapFaults {
			if f.at != item {
				continue
			}
			e := errMap1
			if i == 1 {
				e = errMap2
			}
			switch f.kind {
			case "cancelErr":
				mu.Lock()
				cancelErrs = append(cancelErrs, e)
				mu.Unlock()
				noteFault()
				beforeCancel()
				stampCancel()
				cancelFn(e)
				return
			case "cancelNil":
				mu.Lock()
				cancelErrs = append(cancelErrs, mr.ErrCancelWithNil)
				mu.Unlock()
				noteFault()
				beforeCancel()
				stampCancel()
				cancelFn(nil)
				return
			case "panic":
				noteFault()
				afterOutput()
				atomic.StoreInt32(&panicRaised, 1)
				panic(fmt.Sprintf("map-panic-%d", item))
			case "stall":
				<-release
			}
		}
		for k := 0; k < p.fan; k++ {
			v := item*10 + k
			mu.Lock()
			written = append(written, v)
			mu.Unlock()
			w.Write(v)
		}
	}
	reducerBody := func(pipe <-chan int, cancelFn func(error), early func(seen int) (stop bool)) (emit bool) {
		n := 0
		for v := range pipe {
			mu.Lock()
			reduced = append(reduced, v)
			mu.Unlock()
			if n == p.redEarlyAt && early != nil {
				if early(n + 1) {
					return false
				}
			}
			if n == p.redFault.at {
				switch p.redFault.kind {
				case "cancelErr":
					mu.Lock()
					cancelErrs = append(cancelErrs, errRed)
					mu.Unlock()
					beforeCancel()
					stampCancel()
					cancelFn(errRed)
					return false
				case "cancelNil":
					mu.Lock()
					cancelErrs = append(cancelErrs, mr.ErrCancelWithNil)
					mu.Unlock()
					beforeCancel()
					stampCancel()
					cancelFn(nil)
					return false
				case "panic":
					afterOutput()
					atomic.StoreInt32(&panicRaised, 1)
					panic("red-panic")
				}
			}
			n++
		}
		return p.redFault.kind != "nooutput"
	}
	reducer := func(pipe <-chan int, w mr.Writer[int], cancelFn func(error)) {
		wrote := false
		write := func(v int) {
			wrote = true
			atomic.StoreInt64(&outWritten, int64(v))
			atomic.StoreInt32(&outWrittenSet, 1)
			w.Write(v)
		}
		early := func(seen int) bool {
			// the order that matters - a cancel call has begun, then the output is handed over - is
			// constructed, not waited for: if a mapper is going to cancel, give it a moment to get there
			for i := 0; mapperCancels && i < 150 && atomic.LoadInt64(&cancelInvokedAt) == 0; i++ {
				time.Sleep(200 * time.Microsecond)
			}
			if at := atomic.LoadInt64(&cancelInvokedAt); at != 0 {
				// a cancel call began earlier: let c10Margin pass, so that "the call to cancel had been
				// made when the output was handed over" does not hang on a few instructions
				if d := c10Margin - time.Since(time.Unix(0, at)); d > 0 {
					time.Sleep(d)
				}
				atomic.StoreInt32(&lateOutput, 1)
			}
			write(seen)
			return p.redEarlyReturn
		}
		if reducerBody(pipe, cancelFn, early) && !wrote {
			mu.Lock()
			n := len(reduced)
			mu.Unlock()
			write(n)
		}
	}
	voidReducer := func(pipe <-chan int, cancelFn func(error)) {
		reducerBody(pipe, cancelFn, nil)
	}
	resCh := make(chan outcome, 1)
	go func() {
		var o outcome
		defer func() {
			if r := recover(); r != nil {
				o.pan = r
			}
			resCh <- o
		}()
		switch p.entry {
		case "MapReduce":
			o.val, o.err = mr.MapReduce(generate, mapper, reducer, opts...)
		case "MapReduceVoid":
			o.err = mr.MapReduceVoid(generate, mapper, voidReducer, opts...)
		case "MapReduceChan":
			src := make(chan int)
			go func() {
				defer close(prodDone)
				for i := 0; i < p.nItems; i++ {
					src <- i
				}
				close(src)
			}()
			o.val, o.err = mr.MapReduceChan(src, mapper, reducer, opts...)
		}
	}()
	if p.ctxMode == "cancel" {
		go func() {
			time.Sleep(time.Duration(p.ctxDelayUs) * time.Microsecond)
			cancel()
		}()
	}
	stallPlanned := p.genStallAt >= 0
	// how long the gate stays shut: a call that waits for a slow generator cannot return before the
	// gate opens, so a short while is enough; 250 ms for a stalled mapper (the call may return
	// without it); and for a slow generator plus an early output plus a cancelling function, long
	// enough for the reducer's margin
	patience := 40 * time.Millisecond
	cancelPlanned := strings.HasPrefix(p.redFault.kind, "cancel")
	for _, f := range p.mapFaults {
		if f.kind == "stall" && f.at < p.nItems {
			stallPlanned = true
			patience = 250 * time.Millisecond
		}
		if strings.HasPrefix(f.kind, "cancel") && f.at < p.nItems {
			cancelPlanned = true
		}
	}
	if !stallPlanned {
		patience = 250 * time.Millisecond
	}
	if p.genStallAt >= 0 && p.redEarlyAt >= 0 && cancelPlanned {
		patience = 3 * c10Margin
	}
	var o outcome
	var returnedAtNs int64
	released := false
	returnedWhileStalled := false
	select {
	case o = <-resCh:
		if stallPlanned {
			returnedWhileStalled = true
		}
	case <-time.After(patience):
		if stallPlanned {
			// the call is (legitimately) waiting for the stalled mapper: release it
			close(release)
			released = true
		}
		select {
		case o = <-resCh:
		case <-time.After(20 * time.Second):
			t.Fatalf("DEADLOCK: the call did not return within 20 s although every gate is open; plan: %v\ncore/mr goroutines:\n%s", p, dump(mrGoroutines(), baseline))
		}
	}
	returnedAtNs = time.Now().UnixNano()
	if !released {
		close(release)
	}
	// the caller's producer (MapReduceChan) must be able to finish: the library has to drain the source
	if p.entry == "MapReduceChan" {
		select {
		case <-prodDone:
		case <-time.After(20 * time.Second):
			t.Fatalf("STUCK PRODUCER: the goroutine feeding MapReduceChan's source is still blocked 20 s after the call returned (outcome %+v): the source was not drained; plan: %v\ncore/mr goroutines:\n%s", o, p, dump(mrGoroutines(), baseline))
		}
	}
	// leak check: every user function runs on a goroutine with a core/mr frame, so "no such goroutine
	// left" covers both "user functions could finish" (none is stuck inside the library) and "nothing
	// started by the call remains".  All gates are open; jitter plans last at most a few ms.
	deadline := time.Now().Add(10 * time.Second)
	for {
		left := newOnes(mrGoroutines(), baseline)
		if len(left) == 0 {
			break
		}
		if time.Now().After(deadline) {
			t.Fatalf("LEAK: %d goroutine(s) started by the call are still alive 10 s after it returned and every gate was opened (outcome %+v); plan: %v\n%s",
				len(left), o, p, strings.Join(left, "\n\n"))
		}
		time.Sleep(300 * time.Microsecond)
	}
	mu.Lock()
	defer mu.Unlock()
	for i, c := range mapped {
		if c != 1 {
			t.Fatalf("item %d was handed to the mapper %d times; plan: %v", i, c, p)
		}
		if i < 0 || i >= p.nItems {
			t.Fatalf("mapper saw item %d which was never generated; plan: %v", i, p)
		}
	}
	if int(maxMapper) > effWorkers {
		t.Fatalf("%d mappers ran concurrently, configured workers %d; plan: %v", maxMapper, effWorkers, p)
	}
	// every value the reducer saw was written by a mapper, at most once
	wr := map[int]int{}
	for _, v := range written {
		wr[v]++
	}
	for _, v := range reduced {
		wr[v]--
		if wr[v] < 0 {
			t.Fatalf("reducer received value %d more often than it was written; plan: %v", v, p)
		}
	}
	if !p.anyFault() {
		if o.pan != nil {
			t.Fatalf("panic without any fault: %v; plan: %v", o.pan, p)
		}
		if len(mapped) != p.nItems {
			t.Fatalf("mapper saw %d distinct items, generated %d; plan: %v", len(mapped), p.nItems, p)
		}
		sort.Ints(reduced)
		var want []int
		for i := 0; i < p.nItems; i++ {
			for k := 0; k < p.fan; k++ {
				want = append(want, i*10+k)
			}
		}
		if fmt.Sprint(reduced) != fmt.Sprint(want) {
			t.Fatalf("reducer received %v, mappers wrote %v; plan: %v", reduced, want, p)
		}
		if p.entry == "MapReduceVoid" {
			if o.err != nil {
				t.Fatalf("MapReduceVoid returned %v without fault; plan: %v", o.err, p)
			}
		} else if o.err != nil || o.val != len(want) {
			t.Fatalf("result (%v,%v), want the reducer's output %d; plan: %v", o.val, o.err, len(want), p)
		}
		st.Class("clean")
		return
	}
	switch {
	case o.pan != nil:
		s := fmt.Sprint(o.pan)
		planned := false
		for _, f := range p.mapFaults {
			if f.kind == "panic" && strings.Contains(s, fmt.Sprintf("map-panic-%d", f.at)) {
				planned = true
			}
		}
		if p.redFault.kind == "panic" && strings.Contains(s, "red-panic") {
			planned = true
		}
		if p.genPanicAt >= 0 && strings.Contains(s, "gen-panic") {
			planned = true
		}
		if !planned {
			t.Fatalf("a panic surfaced that no user function raised: %v; plan: %v", o.pan, p)
		}
		st.Class("outcome:panic")
		if atomic.LoadInt32(&panicAfterOutput) == 1 {
			st.Class("outcome:panic-raised-after-the-output-was-handed-over")
		}
	case o.err != nil:
		ok := false
		if p.ctxMode != "none" && (errors.Is(o.err, context.DeadlineExceeded) || errors.Is(o.err, context.Canceled)) {
			ok = true
		}
		for _, e := range cancelErrs {
			if errors.Is(o.err, e) {
				ok = true
			}
		}
		if errors.Is(o.err, mr.ErrReduceNoOutput) && p.entry != "MapReduceVoid" {
			// legitimate only if the reducer really produced nothing: planned no-output, or it stopped early
			if p.redFault.kind == "nooutput" {
				ok = true
			}
		}
		if !ok {
			t.Fatalf("call returned error %v, which is neither an error passed to cancel (%v) nor a context error (ctx mode %s); plan: %v", o.err, cancelErrs, p.ctxMode, p)
		}
		st.Class("outcome:error")
	default:
		// no planned fault took effect before the call completed: the normal result must be right,
		// and it is legal only if no user function panicked and nobody cancelled
		if atomic.LoadInt32(&panicRaised) == 1 {
			// with an early output the caller's result is settled while user functions are still running,
			// and something else (a cancel) may end the call at the very moment a function panics: only a
			// panic raised at least c10PanicMargin before the call returned is judged
			at := atomic.LoadInt64(&panicAtNs)
			// (if nobody cancelled and the context cannot end, only the reducer's goroutine ends the call,
			// after the reducer has returned and every mapper has finished: every panic is older than that)
			nothingElseEndsTheCall := atomic.LoadInt64(&cancelInvokedAt) == 0 && p.ctxMode == "none"
			if p.redEarlyAt < 0 || nothingElseEndsTheCall || (at != 0 && time.Duration(returnedAtNs-at) >= c10PanicMargin) {
				t.Fatalf("SWALLOWED PANIC: a user function panicked but the call returned normally (%v, nil); plan: %v", o.val, p)
			}
			st.Class("panic-concurrent-with-the-return (not judged)")
		}
		if len(cancelErrs) > 0 && p.redEarlyAt < 0 {
			// (the reducer writes after the pipe is closed, i.e. after every mapper - the cancelling one
			// included - has returned)
			t.Fatalf("cancel(%v) was called but the call returned normally (%v, nil); plan: %v", cancelErrs, o.val, p)
		}
		if atomic.LoadInt32(&lateOutput) == 1 {
			t.Fatalf("cancel(%v) had been called at least %v before the reducer handed over its output, but the call returned normally (%v, nil) "+
				"instead of an error passed to cancel; plan: %v", cancelErrs, c10Margin, o.val, p)
		}
		if p.entry != "MapReduceVoid" {
			if atomic.LoadInt32(&outWrittenSet) == 0 || int64(o.val) != atomic.LoadInt64(&outWritten) {
				t.Fatalf("normal result %d, the reducer's output was %d (written: %v); plan: %v", o.val, atomic.LoadInt64(&outWritten), atomic.LoadInt32(&outWrittenSet) == 1, p)
			}
			if p.redEarlyAt < 0 && o.val != len(reduced) {
				t.Fatalf("normal result %d but the reducer had received %d values; plan: %v", o.val, len(reduced), p)
			}
		}
		if p.redEarlyAt >= 0 && atomic.LoadInt32(&outWrittenSet) == 1 {
			st.Class("outcome:early-output-returned")
		}
		st.Class("outcome:fault-not-reached")
	}
	if returnedWhileStalled {
		st.Class("returned-while-a-mapper-was-stalled")
	}
	if atomic.LoadInt32(&inFlightAtFault) > 0 || returnedWhileStalled {
		st.NonTrivial(p.String())
	}
}

func newOnes(now, baseline map[int]string) []string {
	var out []string
	for id, g := range now {
		if _, ok := baseline[id]; !ok {
			out = append(out, g)
		}
	}
	return out
}

func dump(now, baseline map[int]string) string { return strings.Join(newOnes(now, baseline), "\n\n") }

func TestVerifC10MapReduce(t *testing.T) {
	logx.Disable()
	st := verifkit.New("mapreduce")
	defer st.Flush()
	yield := verifkit.EnvInt("yield", 0) == 1
	rapid.Check(t, func(t *rapid.T) {
		st.Eval()
		p := genPlan(t)
		if yield {
			lang.VerifYieldConfig(rapid.Uint64Range(1, 1<<62).Draw(t, "yieldSeed"),
				rapid.SampledFrom([]uint32{0, 100, 400}).Draw(t, "yieldGosched"), rapid.SampledFrom([]uint32{0, 30, 100}).Draw(t, "yieldSleep"), 120)
			defer lang.VerifYieldConfig(0, 0, 0, 0)
		}
		runPlan(t, st, p)
	})
	st.ClassN("yield-points-hit", int(lang.VerifYieldHits()))
}

// ForEach / Finish / FinishVoid: exactly-once, worker cap, panic re-raise, error from Finish,
// clean termination.
func TestVerifC10ForEachFinish(t *testing.T) {
	logx.Disable()
	st := verifkit.New("foreach-finish")
	defer st.Flush()
	rapid.Check(t, func(t *rapid.T) {
		st.Eval()
		baseline := mrGoroutines()
		entry := rapid.SampledFrom([]string{"ForEach", "Finish", "FinishVoid"}).Draw(t, "entry")
		n := rapid.IntRange(0, 30).Draw(t, "items")
		workers := rapid.IntRange(-1, 8).Draw(t, "workers")
		panicAt := rapid.SampledFrom([]int{-1, -1, 0, 2, 7}).Draw(t, "panicAt")
		errAt := rapid.SampledFrom([]int{-1, -1, 1, 5}).Draw(t, "errAt")
		genPanic := entry == "ForEach" && rapid.IntRange(0, 5).Draw(t, "genPanic") == 0
		var mu sync.Mutex
		seen := map[int]int{}
		var in, maxIn int32
		body := func(i int) {
			c := atomic.AddInt32(&in, 1)
			for {
				m := atomic.LoadInt32(&maxIn)
				if c <= m || atomic.CompareAndSwapInt32(&maxIn, m, c) {
					break
				}
			}
			defer atomic.AddInt32(&in, -1)
			mu.Lock()
			seen[i]++
			mu.Unlock()
			for k := 0; k < i%5; k++ {
				runtime.Gosched()
			}
			if i == panicAt {
				panic(fmt.Sprintf("body-panic-%d", i))
			}
		}
		errX := errors.New("finish error")
		var pan any
		var err error
		done := make(chan struct{})
		go func() {
			defer close(done)
			defer func() { pan = recover() }()
			switch entry {
			case "ForEach":
				var opts []mr.Option
				if workers != 0 {
					opts = append(opts, mr.WithWorkers(workers))
				}
				mr.ForEach(func(src chan<- int) {
					for i := 0; i < n; i++ {
						src <- i
					}
					if genPanic {
						panic("gen-panic")
					}
				}, body, opts...)
			case "Finish":
				var fns []func() error
				for i := 0; i < n; i++ {
					i := i
					fns = append(fns, func() error {
						body(i)
						if i == errAt {
							return errX
						}
						return nil
					})
				}
				err = mr.Finish(fns...)
			case "FinishVoid":
				var fns []func()
				for i := 0; i < n; i++ {
					i := i
					fns = append(fns, func() { body(i) })
				}
				mr.FinishVoid(fns...)
			}
		}()
		select {
		case <-done:
		case <-time.After(20 * time.Second):
			t.Fatalf("DEADLOCK: %s(n=%d, workers=%d, panicAt=%d, errAt=%d) did not return within 20 s\n%s", entry, n, workers, panicAt, errAt, dump(mrGoroutines(), baseline))
		}
		deadline := time.Now().Add(5 * time.Second)
		for {
			left := newOnes(mrGoroutines(), baseline)
			if len(left) == 0 {
				break
			}
			if time.Now().After(deadline) {
				t.Fatalf("LEAK after %s(n=%d, workers=%d, panicAt=%d, errAt=%d, genPanic=%v): %d goroutines\n%s", entry, n, workers, panicAt, errAt, genPanic, len(left), strings.Join(left, "\n\n"))
			}
			time.Sleep(300 * time.Microsecond)
		}
		mu.Lock()
		defer mu.Unlock()
		for i, c := range seen {
			if c != 1 {
				t.Fatalf("%s: item %d processed %d times", entry, i, c)
			}
		}
		eff := workers
		if entry != "ForEach" {
			eff = n
		} else if workers == 0 {
			eff = 16
		}
		if eff < 1 {
			eff = 1
		}
		if int(maxIn) > eff {
			t.Fatalf("%s: %d bodies ran concurrently, cap %d", entry, maxIn, eff)
		}
		panicPlanned := (panicAt >= 0 && panicAt < n) || genPanic
		faulted := panicPlanned || (entry == "Finish" && errAt >= 0 && errAt < n)
		if pan != nil {
			s := fmt.Sprint(pan)
			if !panicPlanned || !(strings.Contains(s, "body-panic") || strings.Contains(s, "gen-panic")) {
				t.Fatalf("%s: unexpected panic %v", entry, pan)
			}
		} else if !faulted {
			if len(seen) != n {
				t.Fatalf("%s: %d of %d items processed", entry, len(seen), n)
			}
			if err != nil {
				t.Fatalf("%s returned %v without fault", entry, err)
			}
		} else if err != nil && !errors.Is(err, errX) {
			t.Fatalf("Finish returned %v, not the error a function returned", err)
		} else if entry == "Finish" && !panicPlanned && err == nil {
			t.Fatalf("Finish returned nil although function %d returned an error", errAt)
		} else if entry != "Finish" && pan == nil && panicPlanned && (panicAt >= 0 && panicAt < n) {
			// ForEach / FinishVoid: a body panicked, the panic must be re-raised
			t.Fatalf("%s swallowed the panic of item %d", entry, panicAt)
		}
		if faulted && n > 2 {
			st.NonTrivial(fmt.Sprintf("%s n=%d w=%d panicAt=%d errAt=%d genPanic=%v", entry, n, workers, panicAt, errAt, genPanic))
		}
	})
}

// Regression shapes of defect D6 (DESIGN §3): a panic raised after the call has already
// returned (context ended / cancelled) must not leave goroutines behind, and a generator
// panic while the context is done must not hang the call.
func TestVerifC10RegressD6(t *testing.T) {
	logx.Disable()
	st := verifkit.New("regress-d6")
	defer st.Flush()
	rapid.Check(t, func(t *rapid.T) {
		st.Eval()
		// (a) mapper cancels, later another mapper panics
		p := plan{entry: "MapReduce", nItems: 6, workers: 4, fan: 1, genStallAt: -1, redEarlyAt: -1, genPanicAt: -1, ctxMode: "none",
			mapFaults: [2]fault{{"cancelErr", 0}, {"panic", 2}}, redFault: fault{"none", 0}, jitter: rapid.IntRange(0, 3).Draw(t, "jitter")}
		runPlan(t, st, p)
		// (b) generator panics while the context is already done
		p = plan{entry: "MapReduce", nItems: 3, workers: 2, fan: 1, genStallAt: -1, redEarlyAt: -1, genPanicAt: 1, ctxMode: "preCancelled",
			mapFaults: [2]fault{{"none", 0}, {"none", 0}}, redFault: fault{"none", 0}, jitter: rapid.IntRange(0, 3).Draw(t, "jitter2")}
		runPlan(t, st, p)
	})
}

// Regression shape of defect D11: the context ends, the reducer's output is discarded for that
// reason, and the call must then report a context error (or an error passed to cancel), never
// ErrReduceNoOutput.
func TestVerifC10RegressD11(t *testing.T) {
	logx.Disable()
	st := verifkit.New("regress-d11")
	defer st.Flush()
	rapid.Check(t, func(t *rapid.T) {
		st.Eval()
		p := plan{entry: rapid.SampledFrom([]string{"MapReduce", "MapReduceChan"}).Draw(t, "entry"), nItems: rapid.IntRange(0, 10).Draw(t, "items"),
			workers: rapid.IntRange(-1, 4).Draw(t, "workers"), fan: rapid.IntRange(0, 2).Draw(t, "fan"), genStallAt: -1, redEarlyAt: -1, genPanicAt: -1,
			ctxMode: rapid.SampledFrom([]string{"preCancelled", "timeout"}).Draw(t, "ctx"), ctxDelayUs: rapid.IntRange(0, 50).Draw(t, "delayUs"),
			mapFaults: [2]fault{{"none", 0}, {"none", 0}}, redFault: fault{"none", 0}, jitter: rapid.IntRange(0, 3).Draw(t, "jitter")}
		// needs the caller to reach its select late: only the yield-instrumented binary produces that reliably
		lang.VerifYieldConfig(rapid.Uint64Range(1, 1<<62).Draw(t, "yieldSeed"), 200, 300, 200)
		defer lang.VerifYieldConfig(0, 0, 0, 0)
		runPlan(t, st, p)
	})
}

// Regression shapes of defect D22: a user function panics after the reducer has handed over its
// output (a reducer that writes and then panics; a mapper that panics while a "first result wins"
// reducer has already written): the call, which is still waiting for the reducer to finish, must
// re-raise the panic and not return the value.
func TestVerifC10RegressD22(t *testing.T) {
	logx.Disable()
	st := verifkit.New("regress-d22")
	defer st.Flush()
	rapid.Check(t, func(t *rapid.T) {
		st.Eval()
		p := plan{entry: "MapReduce", nItems: rapid.IntRange(2, 6).Draw(t, "items"), workers: rapid.IntRange(1, 4).Draw(t, "workers"), fan: 1,
			genStallAt: -1, redEarlyAt: 0, redEarlyReturn: false, genPanicAt: -1, ctxMode: "none",
			mapFaults: [2]fault{{"none", 0}, {"none", 0}}, redFault: fault{"none", 0}, jitter: rapid.IntRange(0, 3).Draw(t, "jitter")}
		if rapid.Bool().Draw(t, "reducerPanics") {
			p.redFault = fault{"panic", rapid.IntRange(0, 1).Draw(t, "at")}
		} else {
			p.mapFaults[0] = fault{"panic", p.nItems - 1}
		}
		runPlan(t, st, p)
	})
}

// Companion of the D6 repair: with a panic channel that no longer blocks the writer, the caller
// may find the output (or collector) closed while a panic is pending; the panic must still be
// re-raised, never swallowed into a normal result.  Needs the caller to reach its select late,
// which the yield-instrumented binary produces.
func TestVerifC10RegressPanicNotSwallowed(t *testing.T) {
	logx.Disable()
	st := verifkit.New("regress-panic-not-swallowed")
	defer st.Flush()
	rapid.Check(t, func(t *rapid.T) {
		st.Eval()
		kind := rapid.SampledFrom([]string{"mapper", "reducer", "generator"}).Draw(t, "who")
		p := plan{entry: rapid.SampledFrom([]string{"MapReduce", "MapReduceVoid"}).Draw(t, "entry"), nItems: rapid.IntRange(1, 3).Draw(t, "items"),
			workers: rapid.IntRange(1, 3).Draw(t, "workers"), fan: 1, genStallAt: -1, redEarlyAt: -1, genPanicAt: -1, ctxMode: "none",
			mapFaults: [2]fault{{"none", 0}, {"none", 0}}, redFault: fault{"none", 0}}
		switch kind {
		case "mapper":
			p.mapFaults[0] = fault{"panic", rapid.IntRange(0, p.nItems-1).Draw(t, "at")}
		case "reducer":
			p.redFault = fault{"panic", 0}
		case "generator":
			p.genPanicAt = p.nItems
		}
		lang.VerifYieldConfig(rapid.Uint64Range(1, 1<<62).Draw(t, "yieldSeed"), 100, 500, 300)
		defer lang.VerifYieldConfig(0, 0, 0, 0)
		runPlan(t, st, p)
	})
}
