//go:build verif

package clientinterceptors_test

import (
	"context"
	"errors"
	"fmt"
	"strings"
	"sync/atomic"
	"testing"
	"time"

	"github.com/zeromicro/go-zero/core/breaker"
	"github.com/zeromicro/go-zero/core/logx"
	"github.com/zeromicro/go-zero/core/timex"
	"github.com/zeromicro/go-zero/internal/verifkit"
	"github.com/zeromicro/go-zero/zrpc/internal/clientinterceptors"
	"google.golang.org/grpc"
	"google.golang.org/grpc/codes"
	"google.golang.org/grpc/status"
	"pgregory.net/rapid"
)

var c01zc int64

var serverFaultC = map[codes.Code]bool{codes.DeadlineExceeded: true, codes.Internal: true, codes.Unavailable: true,
	codes.DataLoss: true, codes.Unimplemented: true, codes.ResourceExhausted: true}

// Call site: zrpc client breaker interceptor: one record per call according to the documented
// acceptability of the invoker's error; error returned unchanged; rejected call does not invoke.
func TestVerifC01ZrpcClient(t *testing.T) {
	logx.Disable()
	st := verifkit.New("zrpc-client-breaker")
	defer st.Flush()
	defer timex.VerifUnfreeze()
	plain := errors.New("plain error")
	rapid.Check(t, func(t *rapid.T) {
		st.Eval()
		timex.VerifFreeze(400 * 24 * time.Hour)
		method := fmt.Sprintf("/verif.C01/C%d", atomic.AddInt64(&c01zc, 1))
		cc := new(grpc.ClientConn)
		b := breaker.GetBreaker(method) // name = path.Join(cc.Target(), method) with an empty target
		var logb strings.Builder
		rejections, admAfter, calls := 0, 0, 0
		one := func(t *rapid.T, kind int, cancelled bool) {
			calls++
			var herr error
			wantFail := false
			switch {
			case kind == -1:
			case kind == -4:
				herr = plain
			default:
				herr = status.Error(codes.Code(kind), "generated")
				wantFail = serverFaultC[codes.Code(kind)]
			}
			_, s0, f0, d0, ok := breaker.VerifCounts(b)
			if !ok {
				t.Fatalf("white-box accessor no longer matches the breaker's structure")
			}
			ran := 0
			ctx := context.Background()
			if cancelled {
				c, cancel := context.WithCancel(ctx)
				cancel()
				ctx = c
			}
			err := clientinterceptors.BreakerInterceptor(ctx, method, nil, nil, cc,
				func(ctx context.Context, m string, req, reply any, cc *grpc.ClientConn, opts ...grpc.CallOption) error {
					ran++
					if m != method {
						t.Fatalf("invoker got method %q want %q", m, method)
					}
					return herr
				})
			_, s1, f1, d1, _ := breaker.VerifCounts(b)
			ds, df, dd := s1-s0, f1-f0, d1-d0
			fmt.Fprintf(&logb, " %v", kind)
			if cancelled {
				if ran != 0 || err != context.Canceled || ds+df+dd != 0 {
					t.Fatalf("cancelled ctx: ran=%d err=%v recorded=%d/%d/%d; %s", ran, err, ds, df, dd, logb.String())
				}
				return
			}
			if ran == 0 {
				rejections++
				if err != breaker.ErrServiceUnavailable || ds != 0 || df != 0 || dd != 1 {
					t.Fatalf("rejected call: err=%v recorded=%d/%d/%d; %s", err, ds, df, dd, logb.String())
				}
				return
			}
			if rejections > 0 {
				admAfter++
			}
			if ran != 1 || err != herr {
				t.Fatalf("admitted call ran %d times, invoker error %v came back as %v; %s", ran, herr, err, logb.String())
			}
			if wantFail && (ds != 0 || df != 1 || dd != 0) || !wantFail && (ds != 1 || df != 0 || dd != 0) {
				t.Fatalf("invoker error %v (server fault=%v) recorded succ/fail/drop=%d/%d/%d; %s", herr, wantFail, ds, df, dd, logb.String())
			}
		}
		kinds := []int{-1, -1, -4, 0, 1, 2, 3, 4, 5, 6, 7, 8, 9, 10, 11, 12, 13, 14, 15, 16}
		t.Repeat(map[string]func(*rapid.T){
			"burst": func(t *rapid.T) {
				n := rapid.IntRange(1, 200).Draw(t, "n")
				kind := rapid.SampledFrom(kinds).Draw(t, "kind")
				canc := rapid.IntRange(0, 9).Draw(t, "cancelled") == 0
				sp := time.Duration(rapid.SampledFrom([]int{0, 1, 40}).Draw(t, "spacingMs")) * time.Millisecond
				fmt.Fprintf(&logb, " |%dx", n)
				for i := 0; i < n; i++ {
					one(t, kind, canc)
					timex.VerifAdvance(sp)
				}
			},
			"advance": func(t *rapid.T) {
				timex.VerifAdvance(time.Duration(rapid.SampledFrom([]int{250, 1001, 10260}).Draw(t, "ms")) * time.Millisecond)
			},
		})
		st.ClassN("calls", calls)
		st.ClassN("rejections", rejections)
		if rejections > 0 && admAfter > 0 {
			st.NonTrivial(logb.String())
		}
	})
}
