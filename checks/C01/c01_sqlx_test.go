//go:build verif

package sqlx_test

import (
	"context"
	"database/sql"
	"database/sql/driver"
	"errors"
	"fmt"
	"io"
	"sync/atomic"
	"testing"
	"time"

	"github.com/zeromicro/go-zero/core/breaker"
	"github.com/zeromicro/go-zero/core/logx"
	"github.com/zeromicro/go-zero/core/stores/sqlx"
	"github.com/zeromicro/go-zero/core/timex"
	"github.com/zeromicro/go-zero/internal/verifkit"
	"pgregory.net/rapid"
)

// minimal driver: every query either fails with a driver error or returns an empty result set
type c01Driver struct {
	fail    *int32
	queries *int64
}
type c01Conn struct{ d *c01Driver }
type c01Stmt struct{ c *c01Conn }
type c01Rows struct{}

func (d *c01Driver) Connect(context.Context) (driver.Conn, error) { return &c01Conn{d}, nil }
func (d *c01Driver) Driver() driver.Driver                        { return d }
func (d *c01Driver) Open(string) (driver.Conn, error)             { return &c01Conn{d}, nil }
func (c *c01Conn) Prepare(string) (driver.Stmt, error)            { return &c01Stmt{c}, nil }
func (c *c01Conn) Close() error                                   { return nil }
func (c *c01Conn) Begin() (driver.Tx, error)                      { return nil, errors.New("no tx") }
func (s *c01Stmt) Close() error                                   { return nil }
func (s *c01Stmt) NumInput() int                                  { return -1 }
func (s *c01Stmt) Exec([]driver.Value) (driver.Result, error) {
	atomic.AddInt64(s.c.d.queries, 1)
	if atomic.LoadInt32(s.c.d.fail) == 1 {
		return nil, errors.New("driver: server has gone away")
	}
	return driver.RowsAffected(1), nil
}
func (s *c01Stmt) Query([]driver.Value) (driver.Rows, error) {
	atomic.AddInt64(s.c.d.queries, 1)
	if atomic.LoadInt32(s.c.d.fail) == 1 {
		return nil, errors.New("driver: server has gone away")
	}
	return c01Rows{}, nil
}
func (c01Rows) Columns() []string         { return []string{"v"} }
func (c01Rows) Close() error              { return nil }
func (c01Rows) Next([]driver.Value) error { return io.EOF }

// Call site: sqlx.  "Not found" (and the other documented acceptable errors) are recorded as
// successes, so a sustained stream of them never opens the breaker; sustained driver errors do
// open it (law 6), and a rejected call does not reach the database.
func TestVerifC01Sqlx(t *testing.T) {
	logx.Disable()
	st := verifkit.New("sqlx-breaker-site")
	defer st.Flush()
	defer timex.VerifUnfreeze()
	rapid.Check(t, func(t *rapid.T) {
		st.Eval()
		timex.VerifFreeze(400 * 24 * time.Hour)
		var fail int32
		var queries int64
		db := sql.OpenDB(&c01Driver{&fail, &queries})
		defer db.Close()
		customAccept := rapid.Bool().Draw(t, "withAcceptable")
		var opts []sqlx.SqlOption
		if customAccept {
			opts = append(opts, sqlx.WithAcceptable(func(err error) bool { return err != nil && err.Error() == "driver: server has gone away" }))
		}
		conn := sqlx.NewSqlConnFromDB(db, opts...)
		kind := rapid.SampledFrom([]string{"notFound", "ok", "driverError"}).Draw(t, "kind")
		op := rapid.SampledFrom([]string{"QueryRow", "Exec"}).Draw(t, "op")
		if kind == "notFound" {
			op = "QueryRow"
		}
		spacing := time.Duration(rapid.SampledFrom([]int{2, 5, 10}).Draw(t, "spacingMs")) * time.Millisecond
		if kind == "driverError" {
			fail = 1
		}
		total := int(12*time.Second/spacing) + 500
		rejectedLast, rejectedAll, reachedWhileRejected := 0, 0, 0
		for i := 0; i < total; i++ {
			before := atomic.LoadInt64(&queries)
			var err error
			if op == "QueryRow" {
				var v int
				err = conn.QueryRowCtx(context.Background(), &v, "select v from t where id = ?", i)
			} else {
				_, err = conn.ExecCtx(context.Background(), "update t set v = ? where id = 1", i)
			}
			if errors.Is(err, breaker.ErrServiceUnavailable) {
				rejectedAll++
				if i >= total-500 {
					rejectedLast++
				}
				if atomic.LoadInt64(&queries) != before {
					reachedWhileRejected++
				}
			} else if kind == "notFound" && !errors.Is(err, sqlx.ErrNotFound) {
				t.Fatalf("empty result came back as %v, want ErrNotFound", err)
			} else if kind == "ok" && op == "Exec" && err != nil {
				t.Fatalf("successful Exec returned %v", err)
			}
			timex.VerifAdvance(spacing)
		}
		if reachedWhileRejected > 0 {
			t.Fatalf("%d rejected calls still reached the database", reachedWhileRejected)
		}
		expectTrip := kind == "driverError" && !customAccept
		if expectTrip && rejectedLast < 400 {
			t.Fatalf("law 6 at sqlx: every %s failed with a driver error for %v, only %d of the last 500 calls were rejected", op, time.Duration(total)*spacing, rejectedLast)
		}
		if !expectTrip && rejectedAll != 0 {
			t.Fatalf("law 1 at sqlx: only acceptable outcomes (%s, custom acceptable=%v) were recorded, yet %d calls were rejected", kind, customAccept, rejectedAll)
		}
		st.NonTrivial(fmt.Sprintf("kind=%s op=%s custom=%v spacing=%v rejectedLast=%d", kind, op, customAccept, spacing, rejectedLast))
	})
}
