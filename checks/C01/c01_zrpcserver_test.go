//go:build verif

package serverinterceptors_test

import (
	"context"
	"errors"
	"fmt"
	"strings"
	"sync/atomic"
	"testing"
	"time"

	"github.com/zeromicro/go-zero/core/breaker"
	"github.com/zeromicro/go-zero/core/logx"
	"github.com/zeromicro/go-zero/core/timex"
	"github.com/zeromicro/go-zero/internal/verifkit"
	"github.com/zeromicro/go-zero/zrpc/internal/serverinterceptors"
	"google.golang.org/grpc"
	"google.golang.org/grpc/codes"
	"google.golang.org/grpc/status"
)

import "pgregory.net/rapid"

var c01zs int64

// server-fault codes: the documented set of gRPC codes that count against the callee
var serverFault = map[codes.Code]bool{codes.DeadlineExceeded: true, codes.Internal: true, codes.Unavailable: true,
	codes.DataLoss: true, codes.Unimplemented: true, codes.ResourceExhausted: true}

type srvStream struct{ grpc.ServerStream }

// Call site: zrpc server breaker interceptors (unary and stream).  After every call exactly one of
// succ/fail/drop of the method's breaker moved by one (white-box totals), according to the documented
// acceptability of the handler's error; the handler's response and error come back unchanged
// (ErrServiceUnavailable surfaces as status Unavailable); a rejected call does not run the handler.
func TestVerifC01ZrpcServer(t *testing.T) {
	logx.Disable()
	st := verifkit.New("zrpc-server-breaker")
	defer st.Flush()
	defer timex.VerifUnfreeze()
	plain := errors.New("plain business error")
	rapid.Check(t, func(t *rapid.T) {
		st.Eval()
		timex.VerifFreeze(400 * 24 * time.Hour)
		method := fmt.Sprintf("/verif.C01/M%d", atomic.AddInt64(&c01zs, 1))
		b := breaker.GetBreaker(method)
		var logb strings.Builder
		rejections, admAfter, calls := 0, 0, 0
		one := func(t *rapid.T, stream bool, kind int, cancelled bool) {
			calls++
			var herr error
			wantFail := false
			switch {
			case kind == -1:
				herr = nil
			case kind == -2:
				herr, wantFail = context.DeadlineExceeded, true
			case kind == -3:
				herr = context.Canceled
			case kind == -4:
				herr = plain
			case kind == -5:
				herr, wantFail = breaker.ErrServiceUnavailable, true
			default:
				herr = status.Error(codes.Code(kind), "generated")
				wantFail = serverFault[codes.Code(kind)]
			}
			_, s0, f0, d0, ok := breaker.VerifCounts(b)
			if !ok {
				t.Fatalf("white-box accessor no longer matches the breaker's structure")
			}
			ran := 0
			resp := &struct{ id int }{calls}
			var gotResp any
			var err error
			ctx := context.Background()
			if cancelled && !stream {
				c, cancel := context.WithCancel(ctx)
				cancel()
				ctx = c
			}
			if stream {
				err = serverinterceptors.StreamBreakerInterceptor(nil, srvStream{}, &grpc.StreamServerInfo{FullMethod: method},
					func(_ any, _ grpc.ServerStream) error { ran++; return herr })
			} else {
				gotResp, err = serverinterceptors.UnaryBreakerInterceptor(ctx, nil, &grpc.UnaryServerInfo{FullMethod: method},
					func(_ context.Context, _ any) (any, error) { ran++; return resp, herr })
			}
			_, s1, f1, d1, _ := breaker.VerifCounts(b)
			ds, df, dd := s1-s0, f1-f0, d1-d0
			fmt.Fprintf(&logb, " %v", kind)
			if cancelled && !stream {
				if ran != 0 || err != context.Canceled || ds+df+dd != 0 {
					t.Fatalf("cancelled ctx: ran=%d err=%v recorded=%d/%d/%d; %s", ran, err, ds, df, dd, logb.String())
				}
				return
			}
			if ran == 0 {
				rejections++
				if status.Code(err) != codes.Unavailable || ds != 0 || df != 0 || dd != 1 {
					t.Fatalf("rejected call: err=%v recorded succ/fail/drop=%d/%d/%d (want 0/0/1, Unavailable); %s", err, ds, df, dd, logb.String())
				}
				return
			}
			if rejections > 0 {
				admAfter++
			}
			if ran != 1 {
				t.Fatalf("handler ran %d times; %s", ran, logb.String())
			}
			if !stream && gotResp != any(resp) {
				t.Fatalf("response not passed through; %s", logb.String())
			}
			if kind == -5 {
				if status.Code(err) != codes.Unavailable {
					t.Fatalf("handler returned ErrServiceUnavailable, caller saw %v; %s", err, logb.String())
				}
			} else if err != herr {
				t.Fatalf("handler error %v came back as %v; %s", herr, err, logb.String())
			}
			if wantFail && (ds != 0 || df != 1 || dd != 0) || !wantFail && (ds != 1 || df != 0 || dd != 0) {
				t.Fatalf("handler error %v (server fault=%v) recorded succ/fail/drop=%d/%d/%d; %s", herr, wantFail, ds, df, dd, logb.String())
			}
		}
		kinds := []int{-1, -1, -2, -3, -4, -5, 0, 1, 2, 3, 4, 5, 6, 7, 8, 9, 10, 11, 12, 13, 14, 15, 16}
		t.Repeat(map[string]func(*rapid.T){
			"burst": func(t *rapid.T) {
				n := rapid.IntRange(1, 200).Draw(t, "n")
				kind := rapid.SampledFrom(kinds).Draw(t, "kind")
				stream := rapid.Bool().Draw(t, "stream")
				canc := rapid.IntRange(0, 9).Draw(t, "cancelled") == 0
				sp := time.Duration(rapid.SampledFrom([]int{0, 1, 40}).Draw(t, "spacingMs")) * time.Millisecond
				fmt.Fprintf(&logb, " |%dx", n)
				for i := 0; i < n; i++ {
					one(t, stream, kind, canc)
					timex.VerifAdvance(sp)
				}
			},
			"advance": func(t *rapid.T) {
				timex.VerifAdvance(time.Duration(rapid.SampledFrom([]int{250, 1001, 10260}).Draw(t, "ms")) * time.Millisecond)
			},
		})
		st.ClassN("calls", calls)
		st.ClassN("rejections", rejections)
		if rejections > 0 && admAfter > 0 {
			st.NonTrivial(logb.String())
		}
	})
}
