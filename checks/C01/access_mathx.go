//go:build verif

package mathx

import "math/rand"

// VerifSeed re-seeds the generator behind TrueOnProba (C01 check: reproducible drop decisions).
func (p *Proba) VerifSeed(seed int64) {
	p.lock.Lock()
	p.r = rand.New(rand.NewSource(seed))
	p.lock.Unlock()
}
