//go:build verif

package redis_test

import (
	"errors"
	"fmt"
	"testing"
	"time"

	"github.com/alicebob/miniredis/v2"
	"github.com/zeromicro/go-zero/core/breaker"
	"github.com/zeromicro/go-zero/core/logx"
	"github.com/zeromicro/go-zero/core/stores/redis"
	"github.com/zeromicro/go-zero/core/timex"
	"github.com/zeromicro/go-zero/internal/verifkit"
	"pgregory.net/rapid"
)

// Call site: the redis client's breaker hook.  A missing key (redis.Nil) is acceptable and never
// opens the breaker; sustained store errors do, and rejected commands do not reach the server.
func TestVerifC01RedisHook(t *testing.T) {
	logx.Disable()
	st := verifkit.New("redis-breaker-site")
	defer st.Flush()
	defer timex.VerifUnfreeze()
	rapid.Check(t, func(t *rapid.T) {
		st.Eval()
		timex.VerifFreeze(400 * 24 * time.Hour)
		mr, err := miniredis.Run() // fresh address => fresh client and breaker
		if err != nil {
			t.Fatalf("miniredis: %v", err)
		}
		defer mr.Close()
		r := redis.New(mr.Addr())
		kind := rapid.SampledFrom([]string{"missingKey", "ok", "storeError"}).Draw(t, "kind")
		spacing := time.Duration(rapid.SampledFrom([]int{5, 10, 20}).Draw(t, "spacingMs")) * time.Millisecond
		mr.Set("present", "1")
		if kind == "storeError" {
			mr.SetError("ERR injected outage")
		}
		total := int(12*time.Second/spacing) + 300
		rejectedLast, rejectedAll, reached := 0, 0, 0
		for i := 0; i < total; i++ {
			before := mr.CommandCount()
			key := "present"
			if kind == "missingKey" {
				key = fmt.Sprintf("absent-%d", i)
			}
			_, err := r.Get(key)
			if errors.Is(err, breaker.ErrServiceUnavailable) {
				rejectedAll++
				if i >= total-300 {
					rejectedLast++
				}
				if mr.CommandCount() != before {
					reached++
				}
			} else if kind != "storeError" && err != nil {
				t.Fatalf("Get(%s) returned %v", key, err)
			}
			timex.VerifAdvance(spacing)
		}
		if reached > 0 {
			t.Fatalf("%d rejected commands still reached the server", reached)
		}
		if kind == "storeError" && rejectedLast < 240 {
			t.Fatalf("law 6 at the redis hook: every command failed for %v, only %d of the last 300 were rejected", time.Duration(total)*spacing, rejectedLast)
		}
		if kind != "storeError" && rejectedAll != 0 {
			t.Fatalf("law 1 at the redis hook: only acceptable outcomes (%s), yet %d commands were rejected", kind, rejectedAll)
		}
		st.NonTrivial(fmt.Sprintf("kind=%s spacing=%v rejectedLast=%d", kind, spacing, rejectedLast))
	})
}
