//go:build verif

package breaker

// White-box accessors for the C01 check (injected by -overlay, never part of a normal build).

// VerifCounts sums the live buckets of b's rolling window.
func VerifCounts(b Breaker) (sum, succ, fail, drop int64, ok bool) {
	cb, ok1 := b.(*circuitBreaker)
	if !ok1 {
		return
	}
	lt, ok2 := cb.throttle.(loggedThrottle)
	if !ok2 {
		return
	}
	gb, ok3 := lt.internalThrottle.(*googleBreaker)
	if !ok3 {
		return
	}
	gb.stat.Reduce(func(bk *bucket) {
		sum += bk.Sum
		succ += bk.Success
		fail += bk.Failure
		drop += bk.Drop
	})
	return sum, succ, fail, drop, true
}

// VerifSeedProba makes b's random drop decisions a function of seed.
func VerifSeedProba(b Breaker, seed int64) bool {
	cb, ok1 := b.(*circuitBreaker)
	if !ok1 {
		return false
	}
	lt, ok2 := cb.throttle.(loggedThrottle)
	if !ok2 {
		return false
	}
	gb, ok3 := lt.internalThrottle.(*googleBreaker)
	if !ok3 {
		return false
	}
	gb.proba.VerifSeed(seed)
	return true
}
