//go:build verif

package breaker_test

import (
	"context"
	"errors"
	"fmt"
	"strings"
	"sync"
	"sync/atomic"
	"testing"
	"time"

	"github.com/zeromicro/go-zero/core/breaker"
	"github.com/zeromicro/go-zero/core/logx"
	"github.com/zeromicro/go-zero/core/timex"
	"github.com/zeromicro/go-zero/internal/verifkit"
	"pgregory.net/rapid"
)

const (
	vbase     = 400 * 24 * time.Hour
	bucketDur = 250 * time.Millisecond // 10 s / 40 buckets, from the property statement's "10 s window"
	nBuckets  = 40
)

const (
	kSucc = iota
	kFail
	kDrop
)

const (
	oOK = iota
	oErr
	oAccErr
	oPanic
	oNilBad // the request returns nil, yet the caller's acceptability predicate rejects the outcome
	//         (e.g. rest/httpc: err == nil && resp.StatusCode < 500)
)

var entryNames = []string{"Do", "DoCtx", "DoWithAcceptable", "DoWithAcceptableCtx", "DoWithFallback", "DoWithFallbackCtx",
	"DoWithFallbackAcceptable", "DoWithFallbackAcceptableCtx", "Allow", "AllowCtx"}

var brkSeq int64

// model of what the breaker has recorded: per 250 ms bucket (index relative to creation) the three counters
type bmodel struct {
	now     time.Duration // virtual time since the breaker was created
	buckets map[int64]*[3]int64
	peer    *bmodel // model of another breaker living on the same (process-wide) virtual clock
}

func (m *bmodel) rec(kind int) {
	idx := int64(m.now / bucketDur)
	b := m.buckets[idx]
	if b == nil {
		b = new([3]int64)
		m.buckets[idx] = b
	}
	b[kind]++
}

// win sums the last k buckets ending with the current one.
func (m *bmodel) win(k int64) (succ, fail, drop int64) {
	cur := int64(m.now / bucketDur)
	for i := cur - k + 1; i <= cur; i++ {
		if b := m.buckets[i]; b != nil {
			succ += b[kSucc]
			fail += b[kFail]
			drop += b[kDrop]
		}
	}
	return
}

func (m *bmodel) adv(d time.Duration) {
	m.now += d
	if m.peer != nil {
		m.peer.now += d
	}
	timex.VerifAdvance(d)
	// forget buckets that can never matter again
	if len(m.buckets) > 400 {
		cur := int64(m.now / bucketDur)
		for i := range m.buckets {
			if i < cur-50 {
				delete(m.buckets, i)
			}
		}
	}
}

var c01WindowSlack = verifkit.EnvInt("c01_window_slack", 0) == 1

type machine struct {
	t      *rapid.T
	b      breaker.Breaker
	name   string
	m      bmodel
	log    strings.Builder
	nlog   int
	lastAd time.Duration // decision time of the most recent admission of any kind (-1: none)
	// an admission has happened while the breaker was certainly throttling (for any weight w<=1.5)
	throttledAdmission bool
	rejections         int
	admAfterReject     int
	forcedProbes       int
	calls              int
	midCancelled       int
	peer               *machine
	noPkgLevel         bool // built with NewBreaker: not reachable through the package-level breaker.Do*(name, …)
}

func (mc *machine) logf(format string, a ...any) {
	if mc.peer != nil && mc.peer.nlog < 120 { // the other breaker's history shows what happened in between
		fmt.Fprintf(&mc.peer.log, " {other breaker:"+format+"}", a...)
		mc.peer.nlog++
	}
	if mc.nlog < 120 {
		fmt.Fprintf(&mc.log, format, a...)
		mc.nlog++
	} else if mc.nlog == 120 {
		mc.log.WriteString(" …")
		mc.nlog++
	}
}

// call performs one breaker call through the chosen entry point and checks laws 1-5.
//
// ctxMode (only meaningful for the *Ctx entry points): 0 live context, 1 cancelled before the call, 2 cancelled
// by the request itself while it runs (the caller gives up in the middle: the call was admitted, so it is
// recorded according to the predicate like any other), 3 deadline already expired before the call.
func (mc *machine) call(entry int, pkgLevel bool, outcome int, dur time.Duration, ctxMode int, fbNil bool) {
	t, b, m := mc.t, mc.b, &mc.m
	pkgLevel = pkgLevel && !mc.noPkgLevel
	cancelled := ctxMode == 1 || ctxMode == 3
	midCancel := func() {}
	mc.calls++
	// ---- pre-state for the oracles (the decision is taken before the request runs)
	justified := false
	// (until session 5 the window was also tried one bucket shorter and longer; the model shares the
	// virtual clock and the bucket grid with the breaker - law 4 asserts the sums bucket-exactly after
	// every action - so the slack only hid staleness of up to one bucket, cf. seed C02j)
	law1Windows := []int64{nBuckets}
	if c01WindowSlack {
		law1Windows = []int64{nBuckets - 1, nBuckets, nBuckets + 1}
	}
	for _, k := range law1Windows {
		s, f, d := m.win(k)
		if float64(f+d) > 5+0.1*float64(s) {
			justified = true
		}
	}
	s40, f40, d40 := m.win(nBuckets)
	defThrottling := float64(s40+f40+d40)-5-1.5*float64(s40) > 0
	mustAdmit := mc.throttledAdmission && mc.lastAd >= 0 && m.now-mc.lastAd > time.Second
	decisionTime := m.now

	ran, fbRan := 0, 0
	reqErr := errors.New("req failed")
	accErr := errors.New("acceptable failure")
	panicVal := fmt.Sprintf("boom-%d", mc.calls)
	ctx := context.Background()
	req := func() error {
		ran++
		m.adv(dur)
		midCancel()
		switch outcome {
		case oOK, oNilBad:
			return nil
		case oErr:
			if ctxMode == 2 && mc.calls%2 == 0 && ctx.Err() != nil {
				// the work notices that its context has ended and reports exactly that error: still an
				// unacceptable outcome of an admitted call (the default predicate accepts nil only)
				reqErr = ctx.Err()
			}
			return reqErr
		case oAccErr:
			return accErr
		}
		panic(panicVal)
	}
	acceptable := func(err error) bool {
		if outcome == oNilBad {
			return false // judged on something other than the error (a response status, say)
		}
		return err == nil || err == accErr
	}
	var fbErr error
	if !fbNil {
		fbErr = errors.New("fallback result")
	}
	var fbArg error
	fb := func(err error) error { fbRan++; fbArg = err; return fbErr }
	wantCtxErr := context.Canceled
	switch ctxMode {
	case 1:
		c, cancel := context.WithCancel(ctx)
		cancel()
		ctx = c
	case 2:
		c, cancel := context.WithCancel(ctx)
		defer cancel()
		ctx, midCancel = c, cancel
	case 3:
		c, cancel := context.WithDeadline(ctx, time.Unix(1, 0))
		defer cancel()
		ctx, wantCtxErr = c, context.DeadlineExceeded
	}
	hasCtx := entry == 1 || entry == 3 || entry == 5 || entry == 7 || entry == 9
	hasFb := entry >= 4 && entry <= 7
	hasAcc := entry == 2 || entry == 3 || entry == 6 || entry == 7 || entry >= 8
	name := mc.name
	var got error
	var pan any
	promiseUsed := false
	func() {
		defer func() { pan = recover() }()
		switch entry {
		case 0:
			if pkgLevel {
				got = breaker.Do(name, req)
			} else {
				got = b.Do(req)
			}
		case 1:
			if pkgLevel {
				got = breaker.DoCtx(ctx, name, req)
			} else {
				got = b.DoCtx(ctx, req)
			}
		case 2:
			if pkgLevel {
				got = breaker.DoWithAcceptable(name, req, acceptable)
			} else {
				got = b.DoWithAcceptable(req, acceptable)
			}
		case 3:
			if pkgLevel {
				got = breaker.DoWithAcceptableCtx(ctx, name, req, acceptable)
			} else {
				got = b.DoWithAcceptableCtx(ctx, req, acceptable)
			}
		case 4:
			if pkgLevel {
				got = breaker.DoWithFallback(name, req, fb)
			} else {
				got = b.DoWithFallback(req, fb)
			}
		case 5:
			if pkgLevel {
				got = breaker.DoWithFallbackCtx(ctx, name, req, fb)
			} else {
				got = b.DoWithFallbackCtx(ctx, req, fb)
			}
		case 6:
			if pkgLevel {
				got = breaker.DoWithFallbackAcceptable(name, req, fb, acceptable)
			} else {
				got = b.DoWithFallbackAcceptable(req, fb, acceptable)
			}
		case 7:
			if pkgLevel {
				got = breaker.DoWithFallbackAcceptableCtx(ctx, name, req, fb, acceptable)
			} else {
				got = b.DoWithFallbackAcceptableCtx(ctx, req, fb, acceptable)
			}
		case 8, 9:
			var p breaker.Promise
			var err error
			if entry == 8 {
				p, err = b.Allow()
			} else {
				p, err = b.AllowCtx(ctx)
			}
			if err != nil {
				got = err
				return
			}
			promiseUsed = true
			ran++
			m.adv(dur)
			midCancel()
			if outcome == oOK || outcome == oAccErr {
				p.Accept()
			} else {
				p.Reject("rejected by caller")
			}
		}
	}()
	mc.logf(" %s(%s,dur=%v%s)", entryNames[entry], [...]string{"ok", "err", "accErr", "panic", "nilButUnacceptable"}[outcome], dur,
		map[bool]string{true: [...]string{"", ",cancelled", ",cancelled-by-req", ",deadline-passed"}[ctxMode], false: ""}[hasCtx])
	if hasCtx && ctxMode == 2 {
		mc.midCancelled++
	}

	// ---- cancelled context: nothing runs, nothing is recorded, ctx error returned
	if cancelled && hasCtx {
		if got != wantCtxErr || ran != 0 || fbRan != 0 || pan != nil {
			t.Fatalf("cancelled ctx via %s: err=%v ran=%d fallbackRan=%d panic=%v; history:%s", entryNames[entry], got, ran, fbRan, pan, mc.log.String())
		}
		mc.logf("=ctxerr")
		mc.checkAccounting()
		return
	}
	admitted := ran > 0
	// effective recorded kind for an admitted call
	recKind := kFail
	switch outcome {
	case oOK:
		recKind = kSucc
	case oAccErr:
		if hasAcc {
			recKind = kSucc
		}
	case oNilBad:
		if !hasAcc {
			recKind = kSucc // entry points without a predicate judge by the error alone
		}
	}
	if !admitted {
		mc.rejections++
		mc.logf("=REJECT")
		if pan != nil {
			t.Fatalf("rejected call panicked: %v; history:%s", pan, mc.log.String())
		}
		if hasFb {
			if fbRan != 1 || fbArg != breaker.ErrServiceUnavailable || got != fbErr {
				t.Fatalf("rejected call with fallback: fallback ran %d times with %v, call returned %v (fallback returned %v); history:%s",
					fbRan, fbArg, got, fbErr, mc.log.String())
			}
		} else if got != breaker.ErrServiceUnavailable {
			t.Fatalf("rejected call returned %v, want ErrServiceUnavailable; history:%s", got, mc.log.String())
		}
		if !justified {
			s, f, d := m.win(nBuckets)
			t.Fatalf("law 1 (only-when): call rejected although the 10 s window holds succ=%d fail=%d drop=%d (needs fail+drop > 5+0.1*succ); now=%v; history:%s",
				s, f, d, m.now, mc.log.String())
		}
		if mustAdmit {
			t.Fatalf("law 5 (forced probe): rejected although the previous admission was %v ago while throttling; history:%s", m.now-mc.lastAd, mc.log.String())
		}
		m.rec(kDrop)
	} else {
		if mc.rejections > 0 {
			mc.admAfterReject++
		}
		if mustAdmit && defThrottling {
			mc.forcedProbes++
		}
		if ran != 1 || fbRan != 0 {
			t.Fatalf("admitted call: request ran %d times, fallback %d times; history:%s", ran, fbRan, mc.log.String())
		}
		if !promiseUsed {
			switch outcome {
			case oOK, oNilBad:
				if got != nil || pan != nil {
					t.Fatalf("ok call returned %v panic=%v; history:%s", got, pan, mc.log.String())
				}
			case oErr:
				if got != reqErr || pan != nil {
					t.Fatalf("failing call returned %v (panic=%v), want the request's own error; history:%s", got, pan, mc.log.String())
				}
			case oAccErr:
				if got != accErr || pan != nil {
					t.Fatalf("acceptable-error call returned %v (panic=%v), want the request's own error; history:%s", got, pan, mc.log.String())
				}
			case oPanic:
				if pan != panicVal {
					t.Fatalf("panic not re-raised unchanged: recovered %v want %v (returned %v); history:%s", pan, panicVal, got, mc.log.String())
				}
			}
		}
		m.rec(recKind)
		if defThrottling {
			mc.throttledAdmission = true
		}
		mc.lastAd = decisionTime
	}
	mc.checkAccounting()
}

// law 4: exact accounting — the breaker's live buckets equal the model's last 40 buckets.
func (mc *machine) checkAccounting() {
	sum, succ, fail, drop, ok := breaker.VerifCounts(mc.b)
	if !ok {
		mc.t.Fatalf("white-box accessor no longer matches the breaker's structure")
	}
	ms, mf, md := mc.m.win(nBuckets)
	if sum != ms+mf+md || succ != ms || fail != mf || drop != md {
		mc.t.Fatalf("law 4 (exact accounting): breaker window sum=%d succ=%d fail=%d drop=%d, model succ=%d fail=%d drop=%d at now=%v; history:%s",
			sum, succ, fail, drop, ms, mf, md, mc.m.now, mc.log.String())
	}
}

func newMachine(t *rapid.T) *machine {
	timex.VerifFreeze(vbase + time.Duration(rapid.Int64Range(0, int64(bucketDur)-1).Draw(t, "phase")))
	name := fmt.Sprintf("verif-c01-%d", atomic.AddInt64(&brkSeq, 1))
	b := breaker.GetBreaker(name)
	if !breaker.VerifSeedProba(b, rapid.Int64().Draw(t, "probaSeed")) {
		t.Fatalf("white-box accessor no longer matches the breaker's structure")
	}
	return &machine{t: t, b: b, name: name, m: bmodel{buckets: map[int64]*[3]int64{}}, lastAd: -1}
}

// newPeer adds a second, independent breaker to the case: same process, same virtual clock, its own
// name, its own drop source and its own model.  Every law is asserted per breaker; what one breaker
// records, when it last admitted and whether it throttles must not depend on the other.
func newPeer(t *rapid.T, mc *machine) *machine {
	name := fmt.Sprintf("verif-c01-%d", atomic.AddInt64(&brkSeq, 1))
	var b breaker.Breaker
	viaNew := rapid.Bool().Draw(t, "peerViaNew")
	if viaNew {
		b = breaker.NewBreaker(breaker.WithName(name))
	} else {
		b = breaker.GetBreaker(name)
	}
	if !breaker.VerifSeedProba(b, rapid.Int64().Draw(t, "peerProbaSeed")) {
		t.Fatalf("white-box accessor no longer matches the breaker's structure")
	}
	p := &machine{t: t, b: b, name: name, m: bmodel{buckets: map[int64]*[3]int64{}}, lastAd: -1, noPkgLevel: viaNew}
	p.peer, mc.peer = mc, p
	p.m.peer, mc.m.peer = &mc.m, &p.m
	return p
}

var gapsMs = []int{0, 1, 249, 250, 251, 999, 1000, 1001, 2500, 9740, 9750, 10000, 10010, 10260, 31000}

func TestVerifC01StateMachine(t *testing.T) {
	logx.Disable()
	st := verifkit.New("breaker-sm")
	defer st.Flush()
	defer timex.VerifUnfreeze()
	rapid.Check(t, func(t *rapid.T) {
		st.Eval()
		first := newMachine(t)
		mcs := []*machine{first}
		if rapid.IntRange(0, 2).Draw(t, "twoBreakers") == 0 {
			mcs = append(mcs, newPeer(t, first))
		}
		mc := first
		pick := func(t *rapid.T) {
			mc = mcs[0]
			if len(mcs) > 1 {
				mc = mcs[rapid.IntRange(0, 1).Draw(t, "breaker")]
			}
			for _, x := range mcs {
				x.t = t
			}
		}
		t.Repeat(map[string]func(*rapid.T){
			"call": func(t *rapid.T) {
				pick(t)
				mc.call(rapid.IntRange(0, 9).Draw(t, "entry"), rapid.Bool().Draw(t, "pkgLevel"), rapid.IntRange(0, 4).Draw(t, "outcome"),
					time.Duration(rapid.SampledFrom([]int{0, 0, 0, 1, 250, 1200, 3000}).Draw(t, "durMs"))*time.Millisecond,
					rapid.SampledFrom([]int{0, 0, 0, 0, 0, 1, 2, 2, 3}).Draw(t, "ctxMode"), rapid.Bool().Draw(t, "fallbackNil"))
			},
			"burst": func(t *rapid.T) {
				pick(t)
				n := rapid.IntRange(5, 400).Draw(t, "n")
				outcome := rapid.SampledFrom([]int{oOK, oErr, oErr, oErr, oAccErr, oPanic, oNilBad}).Draw(t, "outcome")
				sp := time.Duration(rapid.SampledFrom([]int{0, 1, 5, 40, 300}).Draw(t, "spacingMs")) * time.Millisecond
				entry := rapid.IntRange(0, 9).Draw(t, "entry")
				pkg := rapid.Bool().Draw(t, "pkgLevel")
				ctxMode := rapid.SampledFrom([]int{0, 0, 0, 2}).Draw(t, "ctxMode")
				mc.logf(" burst[%d x", n)
				for i := 0; i < n; i++ {
					mc.call(entry, pkg, outcome, 0, ctxMode, false)
					mc.m.adv(sp)
				}
				mc.logf(" ]")
			},
			"advance": func(t *rapid.T) {
				pick(t)
				d := time.Duration(rapid.SampledFrom(gapsMs).Draw(t, "gapMs")) * time.Millisecond
				if rapid.Bool().Draw(t, "toBoundary") {
					// land exactly on the next bucket boundary after the gap
					d += bucketDur - (mc.m.now+d)%bucketDur
				}
				mc.m.adv(d)
				mc.logf(" adv(%v)", d)
				for _, x := range mcs {
					x.checkAccounting()
				}
			},
		})
		opened := 0
		nontrivial := false
		for _, mc := range mcs {
			if mc.rejections > 0 {
				st.Class("opened")
				opened++
			}
			if mc.forcedProbes > 0 {
				st.Class("forced-probe-exercised")
			}
			if mc.rejections > 0 && mc.admAfterReject > 0 {
				nontrivial = true
			}
			st.ClassN("calls", mc.calls)
			st.ClassN("rejections", mc.rejections)
			st.ClassN("calls-whose-context-ended-during-the-request", mc.midCancelled)
		}
		if nontrivial { // one case, one entry: the first breaker's history shows the other's actions in braces
			st.NonTrivial(first.log.String())
		}
		if len(mcs) > 1 {
			st.Class("two-breakers")
			if opened == 2 {
				st.Class("two-breakers-both-opened")
			}
		}
	})
}

// law 6: sustained total failure makes the breaker reject the overwhelming majority.
// After an arbitrary prefix, >= 12 s of virtual time with only failing calls (so the 10 s
// window holds failures and rejections only).  Then among the last 1000 calls the expected
// admitted fraction is <= 1/(T+1)+forced probes (one per second) < 2.5 % for the spacings
// used; the threshold of 20 % admitted has a false-alarm probability far below 1e-9
// (Chernoff: P[Bin(1000,0.025) >= 200] < exp(-1000*KL(0.2||0.025)) ~ 1e-120).
func TestVerifC01Trip(t *testing.T) {
	logx.Disable()
	st := verifkit.New("breaker-trip")
	defer st.Flush()
	defer timex.VerifUnfreeze()
	rapid.Check(t, func(t *rapid.T) {
		st.Eval()
		mc := newMachine(t)
		// arbitrary prefix
		np := rapid.IntRange(0, 2000).Draw(t, "prefixCalls")
		pOut := rapid.SampledFrom([]int{oOK, oOK, oErr, oAccErr}).Draw(t, "prefixOutcome")
		for i := 0; i < np; i++ {
			mc.call(2, false, pOut, 0, 0, false)
			mc.m.adv(time.Millisecond)
		}
		spacing := time.Duration(rapid.SampledFrom([]int{1, 2, 5, 10}).Draw(t, "spacingMs")) * time.Millisecond
		entry := rapid.IntRange(0, 9).Draw(t, "entry")
		outcome := rapid.SampledFrom([]int{oErr, oPanic, oNilBad}).Draw(t, "failKind")
		if outcome == oNilBad {
			entry = rapid.SampledFrom([]int{2, 3, 6, 7, 8, 9}).Draw(t, "entryWithPredicate")
		}
		total := int(12*time.Second/spacing) + 1000
		rejBefore := 0
		for i := 0; i < total; i++ {
			if i == total-1000 {
				rejBefore = mc.rejections
			}
			mc.call(entry, false, outcome, 0, 0, false)
			mc.m.adv(spacing)
		}
		rejLast := mc.rejections - rejBefore
		if rejLast < 800 {
			t.Fatalf("law 6 (does trip): only %d of the last 1000 calls were rejected after %v of total failure (spacing %v, entry %s)",
				rejLast, time.Duration(total)*spacing, spacing, entryNames[entry])
		}
		st.NonTrivial(fmt.Sprintf("prefix=%d/%d spacing=%v entry=%d outcome=%d rejLast=%d", np, pOut, spacing, entry, outcome, rejLast))
	})
}

// law 7: concurrent callers, clock frozen: per-call laws 2-3 hold and at quiescence the
// window totals equal the number of calls per kind.
func TestVerifC01Concurrent(t *testing.T) {
	logx.Disable()
	st := verifkit.New("breaker-concurrent")
	defer st.Flush()
	defer timex.VerifUnfreeze()
	rapid.Check(t, func(t *rapid.T) {
		st.Eval()
		timex.VerifFreeze(vbase)
		name := fmt.Sprintf("verif-c01c-%d", atomic.AddInt64(&brkSeq, 1))
		// cold start: nobody has asked for this name before; every goroutine fetches the breaker by name
		// itself, all released together, and keeps its handle (as mon.Model, the interceptors and httpc do).
		// There is one breaker per name, so all of their calls are recorded in the same window.
		cold := rapid.Bool().Draw(t, "coldStart")
		var b breaker.Breaker
		if !cold {
			b = breaker.GetBreaker(name)
		}
		g := rapid.IntRange(2, 32).Draw(t, "goroutines")
		per := rapid.IntRange(1, 60).Draw(t, "callsPerGoroutine")
		failPct := rapid.SampledFrom([]int{0, 30, 70, 100}).Draw(t, "failPct")
		type plan struct{ entry, outcome int }
		plans := make([][]plan, g)
		for i := range plans {
			plans[i] = make([]plan, per)
			for j := range plans[i] {
				o := oOK
				if rapid.IntRange(0, 99).Draw(t, "roll") < failPct {
					o = rapid.SampledFrom([]int{oErr, oPanic, oAccErr}).Draw(t, "failKind")
				}
				plans[i][j] = plan{rapid.IntRange(0, 9).Draw(t, "entry"), o}
			}
		}
		var succ, fail, drop int64
		var bad atomic.Value
		var wg sync.WaitGroup
		accErr := errors.New("acc")
		reqErr := errors.New("req")
		acceptable := func(err error) bool { return err == nil || err == accErr }
		startGate := make(chan struct{})
		handles := make([]breaker.Breaker, g)
		for i := 0; i < g; i++ {
			wg.Add(1)
			go func(gi int, pl []plan) {
				defer wg.Done()
				<-startGate
				b := b
				if cold {
					b = breaker.GetBreaker(name)
				}
				handles[gi] = b
				for _, p := range pl {
					ran, fbRan := 0, 0
					req := func() error {
						ran++
						switch p.outcome {
						case oOK:
							return nil
						case oErr:
							return reqErr
						case oAccErr:
							return accErr
						}
						panic("boom")
					}
					fb := func(err error) error { fbRan++; return err }
					var got error
					var pan any
					hasAcc := false
					func() {
						defer func() { pan = recover() }()
						ctx := context.Background()
						switch p.entry {
						case 0:
							got = b.Do(req)
						case 1:
							got = b.DoCtx(ctx, req)
						case 2:
							hasAcc = true
							got = b.DoWithAcceptable(req, acceptable)
						case 3:
							hasAcc = true
							got = b.DoWithAcceptableCtx(ctx, req, acceptable)
						case 4:
							got = b.DoWithFallback(req, fb)
						case 5:
							got = b.DoWithFallbackCtx(ctx, req, fb)
						case 6:
							hasAcc = true
							got = b.DoWithFallbackAcceptable(req, fb, acceptable)
						case 7:
							hasAcc = true
							got = b.DoWithFallbackAcceptableCtx(ctx, req, fb, acceptable)
						default:
							hasAcc = true
							pr, err := b.Allow()
							if err != nil {
								got = err
								return
							}
							ran++
							if p.outcome == oOK || p.outcome == oAccErr {
								pr.Accept()
							} else {
								pr.Reject("x")
							}
						}
					}()
					if ran == 0 {
						atomic.AddInt64(&drop, 1)
						if got != breaker.ErrServiceUnavailable || pan != nil {
							bad.Store(fmt.Sprintf("rejected call returned %v panic=%v", got, pan))
						}
						if p.entry >= 4 && p.entry <= 7 && fbRan != 1 {
							bad.Store(fmt.Sprintf("fallback ran %d times on rejection", fbRan))
						}
						continue
					}
					if ran != 1 || fbRan != 0 {
						bad.Store(fmt.Sprintf("admitted call ran=%d fallback=%d", ran, fbRan))
					}
					if p.outcome == oOK || (p.outcome == oAccErr && hasAcc) {
						atomic.AddInt64(&succ, 1)
					} else {
						atomic.AddInt64(&fail, 1)
					}
					if p.outcome == oPanic && p.entry < 8 && pan != "boom" {
						bad.Store(fmt.Sprintf("panic not re-raised: %v", pan))
					}
				}
			}(i, plans[i])
		}
		close(startGate)
		wg.Wait()
		if v := bad.Load(); v != nil {
			t.Fatalf("concurrent phase: %v", v)
		}
		if cold {
			b = breaker.GetBreaker(name)
			for gi, h := range handles {
				if h != b {
					t.Fatalf("law 7 (one window per breaker name): goroutine %d of %d, asking for breaker %q at the same time as the others, was handed another object than the one registered under that name: its calls are recorded nowhere", gi, g, name)
				}
			}
			st.Class("cold-start")
		}
		sum, s, f, d, ok := breaker.VerifCounts(b)
		if !ok {
			t.Fatalf("white-box accessor no longer matches the breaker's structure")
		}
		if s != succ || f != fail || d != drop || sum != succ+fail+drop {
			t.Fatalf("law 7 (concurrent accounting): window sum=%d succ=%d fail=%d drop=%d, observed calls succ=%d fail=%d drop=%d (g=%d per=%d)",
				sum, s, f, d, succ, fail, drop, g, per)
		}
		if drop > 0 {
			st.Class("with-rejections")
		}
		if g >= 4 && succ+fail+drop >= 50 {
			st.NonTrivial(fmt.Sprintf("g=%d per=%d failPct=%d succ=%d fail=%d drop=%d", g, per, failPct, succ, fail, drop))
		}
	})
}

// Regression shapes kept from sensitivity experiments (plain, no rapid).
func TestVerifC01RegressForcedProbe(t *testing.T) {
	logx.Disable()
	defer timex.VerifUnfreeze()
	timex.VerifFreeze(vbase)
	b := breaker.NewBreaker()
	fail := errors.New("x")
	// 200 failures 1 ms apart: the breaker throttles and some call is admitted while throttling
	admittedWhileThrottling := false
	for i := 0; i < 400; i++ {
		ran := false
		_ = b.Do(func() error { ran = true; return fail })
		if ran && i > 50 {
			admittedWhileThrottling = true
		}
		timex.VerifAdvance(time.Millisecond)
	}
	if !admittedWhileThrottling {
		t.Skip("no admission while throttling in this run (random drop), nothing to assert")
	}
	// Now find the last admission, then wait > 1 s: the next call must be admitted.
	for {
		ran := false
		_ = b.Do(func() error { ran = true; return fail })
		if ran {
			break
		}
		timex.VerifAdvance(time.Millisecond)
	}
	timex.VerifAdvance(time.Second + time.Millisecond)
	ran := false
	_ = b.Do(func() error { ran = true; return fail })
	if !ran {
		t.Fatalf("call 1.001 s after the previous throttled admission was rejected")
	}
}
