//go:build verif

package breaker_test

// Unit `overlap`: the laws of the `sm` unit applied to calls that OVERLAP.  Many calls are between admission and
// outcome at once (kept promises; Do* calls whose request function is parked on a gate owned by the harness)
// while other calls are admitted, rejected and finished and while virtual time passes, across bucket
// boundaries, the 1 s forced-probe gap and the whole 10 s window.
//
// Everything is deterministic: a Do* call runs on a harness goroutine; the harness goes on only after the
// request function has reported "entered" (and is then parked on its gate, touching nothing) or the call has
// returned (a rejected / refused call returns at once); the virtual clock is moved by the harness only, never
// while a goroutine is running between gates.  The only wall-clock use is a watchdog whose expiry is
// "inconclusive", never a failure.
//
// Model (from the statement): "every admitted call records exactly one success or failure" — when it is
// resolved; an open call has recorded nothing yet.  A rejection records one drop at its decision.  The decision
// of a call is judged on the window contents at the moment of the decision.

import (
	"context"
	"errors"
	"fmt"
	"testing"
	"time"

	"github.com/zeromicro/go-zero/core/breaker"
	"github.com/zeromicro/go-zero/core/logx"
	"github.com/zeromicro/go-zero/core/timex"
	"github.com/zeromicro/go-zero/internal/verifkit"
	"pgregory.net/rapid"
)

const (
	ovMaxOpen  = 8
	ovWatchdog = 120 * time.Second // wall clock, watchdog only: expiry = inconclusive
)

var ovOutcomeNames = [...]string{"ok", "err", "accErr", "panic", "nilButUnacceptable"}

// one call that has been started and (if admitted) not been resolved yet
type ovCall struct {
	id       int
	entry    int
	pkgLevel bool
	outcome  int
	ctxMode  int // 0 live, 1 cancelled before the call, 2 cancelled by the harness while the call is open, 3 deadline passed before the call
	admitAt  time.Duration

	// Allow / AllowCtx
	p breaker.Promise

	// Do*: owned by the call's goroutine until `done` is closed (ran additionally readable after "entered")
	gate    chan struct{}
	entered chan struct{}
	done    chan struct{}
	ran     int
	fbRan   int
	fbArg   error
	got     error
	pan     any

	cancel   context.CancelFunc
	reqErr   error
	accErr   error
	fbErr    error
	panicVal string
	wantCtx  error
}

func (c *ovCall) isPromise() bool { return c.entry >= 8 }
func (c *ovCall) hasCtx() bool    { return c.entry%2 == 1 }
func (c *ovCall) hasFb() bool     { return c.entry >= 4 && c.entry <= 7 }
func (c *ovCall) hasAcc() bool {
	return c.entry == 2 || c.entry == 3 || c.entry == 6 || c.entry == 7 || c.entry >= 8
}

// what an admitted call must be recorded as (same table as the `sm` unit)
func (c *ovCall) recKind() int {
	switch c.outcome {
	case oOK:
		return kSucc
	case oAccErr:
		if c.hasAcc() {
			return kSucc
		}
	case oNilBad:
		if !c.hasAcc() {
			return kSucc // entry points without a predicate judge by the error alone
		}
	}
	return kFail
}

type ovMachine struct {
	*machine
	st   *verifkit.Stats
	open []*ovCall // admission order
	all  []*ovCall // every Do* call ever started in this case (cleanup)

	maxOpen, outOfOrder, acrossBucket, acrossWindow  int
	rejectedWhileOpen, panicsWhileOthersOpen, opened int
	admittedWhileOpen, refusedCtx, midCancelledOpen  int
	resolvedWhileThrottling                          int
	inconclusive                                     bool
}

type ovInconclusive struct{}

// wait blocks until one of the channels is ready; false = the other one / true = the first one.
// A watchdog expiry abandons the case as inconclusive.
func (om *ovMachine) wait(what string, first, second <-chan struct{}) bool {
	select {
	case <-first:
		return true
	case <-second:
		return false
	default:
	}
	tm := time.NewTimer(ovWatchdog)
	defer tm.Stop()
	select {
	case <-first:
		return true
	case <-second:
		return false
	case <-tm.C:
		om.inconclusive = true
		om.st.Note("inconclusive: %s did not happen within %v of wall time; history:%s", what, ovWatchdog, om.log.String())
		panic(ovInconclusive{})
	}
}

// cleanup releases every goroutine of the case (also after a failed assertion, so that shrinking does not
// pile up parked goroutines) and waits for them.
func (om *ovMachine) cleanup() {
	for _, c := range om.all {
		if c.cancel != nil {
			c.cancel()
		}
		if c.gate != nil {
			select {
			case <-c.gate:
			default:
				close(c.gate)
			}
		}
	}
	for _, c := range om.all {
		if c.done != nil {
			select {
			case <-c.done:
			case <-time.After(10 * time.Second):
			}
		}
	}
}

func (om *ovMachine) preState() (justified, defThrottling, mustAdmit bool) {
	m := &om.m
	s, f, d := m.win(nBuckets)
	justified = float64(f+d) > 5+0.1*float64(s)
	defThrottling = float64(s+f+d)-5-1.5*float64(s) > 0
	mustAdmit = om.throttledAdmission && om.lastAd >= 0 && m.now-om.lastAd > time.Second
	return
}

// openCall starts one call and leaves it open if it is admitted.
func (om *ovMachine) openCall(entry int, pkgLevel bool, outcome, ctxMode int, fbNil bool) {
	t, b, m := om.t, om.b, &om.m
	om.calls++
	c := &ovCall{id: om.calls, entry: entry, pkgLevel: pkgLevel && !om.noPkgLevel && entry < 8, outcome: outcome, admitAt: m.now,
		reqErr: errors.New("req failed"), accErr: errors.New("acceptable failure"), panicVal: fmt.Sprintf("boom-%d", om.calls),
		wantCtx: context.Canceled}
	if !c.hasCtx() {
		ctxMode = 0
	}
	c.ctxMode = ctxMode
	if !fbNil {
		c.fbErr = errors.New("fallback result")
	}
	justified, defThrottling, mustAdmit := om.preState()

	ctx := context.Background()
	switch ctxMode {
	case 1:
		cc, cancel := context.WithCancel(ctx)
		cancel()
		ctx = cc
	case 2:
		cc, cancel := context.WithCancel(ctx)
		ctx, c.cancel = cc, cancel
	case 3:
		cc, cancel := context.WithDeadline(ctx, time.Unix(1, 0))
		ctx, c.cancel, c.wantCtx = cc, cancel, context.DeadlineExceeded
	}
	refusedCtx := ctxMode == 1 || ctxMode == 3
	om.logf(" open#%d(%s%s,%s%s)", c.id, map[bool]string{true: "breaker.", false: ""}[c.pkgLevel], entryNames[entry], ovOutcomeNames[outcome],
		[...]string{"", ",cancelled", ",cancelled-while-open", ",deadline-passed"}[ctxMode])

	admitted := false
	if c.isPromise() {
		var p breaker.Promise
		var err error
		if entry == 8 {
			p, err = b.Allow()
		} else {
			p, err = b.AllowCtx(ctx)
		}
		if err == nil {
			if p == nil {
				t.Fatalf("%s returned neither a promise nor an error; history:%s", entryNames[entry], om.log.String())
			}
			admitted, c.p = true, p
		}
		c.got = err
	} else {
		c.gate, c.entered, c.done = make(chan struct{}), make(chan struct{}, 64), make(chan struct{})
		om.all = append(om.all, c)
		req := func() error {
			c.ran++
			select {
			case c.entered <- struct{}{}:
			default:
			}
			<-c.gate
			switch c.outcome {
			case oOK, oNilBad:
				return nil
			case oErr:
				return c.reqErr
			case oAccErr:
				return c.accErr
			}
			panic(c.panicVal)
		}
		acceptable := func(err error) bool {
			if c.outcome == oNilBad {
				return false
			}
			return err == nil || err == c.accErr
		}
		fb := func(err error) error { c.fbRan++; c.fbArg = err; return c.fbErr }
		name := om.name
		go func() {
			defer close(c.done)
			defer func() { c.pan = recover() }()
			switch {
			case entry == 0 && c.pkgLevel:
				c.got = breaker.Do(name, req)
			case entry == 0:
				c.got = b.Do(req)
			case entry == 1 && c.pkgLevel:
				c.got = breaker.DoCtx(ctx, name, req)
			case entry == 1:
				c.got = b.DoCtx(ctx, req)
			case entry == 2 && c.pkgLevel:
				c.got = breaker.DoWithAcceptable(name, req, acceptable)
			case entry == 2:
				c.got = b.DoWithAcceptable(req, acceptable)
			case entry == 3 && c.pkgLevel:
				c.got = breaker.DoWithAcceptableCtx(ctx, name, req, acceptable)
			case entry == 3:
				c.got = b.DoWithAcceptableCtx(ctx, req, acceptable)
			case entry == 4 && c.pkgLevel:
				c.got = breaker.DoWithFallback(name, req, fb)
			case entry == 4:
				c.got = b.DoWithFallback(req, fb)
			case entry == 5 && c.pkgLevel:
				c.got = breaker.DoWithFallbackCtx(ctx, name, req, fb)
			case entry == 5:
				c.got = b.DoWithFallbackCtx(ctx, req, fb)
			case entry == 6 && c.pkgLevel:
				c.got = breaker.DoWithFallbackAcceptable(name, req, fb, acceptable)
			case entry == 6:
				c.got = b.DoWithFallbackAcceptable(req, fb, acceptable)
			case entry == 7 && c.pkgLevel:
				c.got = breaker.DoWithFallbackAcceptableCtx(ctx, name, req, fb, acceptable)
			default:
				c.got = b.DoWithFallbackAcceptableCtx(ctx, req, fb, acceptable)
			}
		}()
		admitted = om.wait(fmt.Sprintf("call #%d: neither the request was entered nor the call returned", c.id), c.entered, c.done)
	}

	switch {
	case refusedCtx:
		// a done context: nothing runs, nothing is recorded, the context's error is returned
		if admitted || c.got != c.wantCtx || c.ran != 0 || c.fbRan != 0 || c.pan != nil {
			t.Fatalf("done context via %s: admitted=%v err=%v (want %v) ran=%d fallbackRan=%d panic=%v; history:%s",
				entryNames[entry], admitted, c.got, c.wantCtx, c.ran, c.fbRan, c.pan, om.log.String())
		}
		om.refusedCtx++
		om.logf("=ctxerr")
		if c.cancel != nil {
			c.cancel()
		}
	case !admitted:
		om.rejections++
		om.logf("=REJECT")
		if len(om.open) > 0 {
			om.rejectedWhileOpen++
		}
		if c.pan != nil || c.ran != 0 {
			t.Fatalf("law 2: rejected call #%d ran the request %d times, panic=%v; history:%s", c.id, c.ran, c.pan, om.log.String())
		}
		if c.hasFb() {
			if c.fbRan != 1 || c.fbArg != breaker.ErrServiceUnavailable || c.got != c.fbErr {
				t.Fatalf("law 2: rejected call #%d with fallback: fallback ran %d times with %v, call returned %v (fallback returned %v); history:%s",
					c.id, c.fbRan, c.fbArg, c.got, c.fbErr, om.log.String())
			}
		} else if c.got != breaker.ErrServiceUnavailable {
			t.Fatalf("law 2: rejected call #%d returned %v, want ErrServiceUnavailable; history:%s", c.id, c.got, om.log.String())
		}
		if !justified {
			s, f, d := m.win(nBuckets)
			t.Fatalf("law 1 (only-when): call #%d rejected although the 10 s window holds succ=%d fail=%d drop=%d recorded calls (needs fail+drop > 5+0.1*succ; %d calls are open and have recorded nothing yet); now=%v; history:%s",
				c.id, s, f, d, len(om.open), m.now, om.log.String())
		}
		if mustAdmit {
			t.Fatalf("law 5 (forced probe): call #%d rejected although the previous admission was decided %v ago (> 1 s) and an admission has happened while throttling; history:%s",
				c.id, m.now-om.lastAd, om.log.String())
		}
		m.rec(kDrop)
	default:
		if om.rejections > 0 {
			om.admAfterReject++
		}
		if mustAdmit && defThrottling {
			om.forcedProbes++
		}
		if defThrottling {
			om.throttledAdmission = true
		}
		if len(om.open) > 0 {
			om.admittedWhileOpen++
		}
		om.lastAd = m.now
		if !c.isPromise() && (c.ran != 1 || c.fbRan != 0) {
			t.Fatalf("law 3: admitted call #%d: request entered %d times, fallback ran %d times; history:%s", c.id, c.ran, c.fbRan, om.log.String())
		}
		om.open = append(om.open, c)
		om.opened++
		if len(om.open) > om.maxOpen {
			om.maxOpen = len(om.open)
		}
		om.st.Class("opened-via-" + entryNames[entry] + map[bool]string{true: "(package-level)", false: ""}[c.pkgLevel])
	}
	om.checkAccounting()
}

// closeCall resolves the i-th open call (admission order).
func (om *ovMachine) closeCall(i int) {
	t, m := om.t, &om.m
	c := om.open[i]
	om.open = append(om.open[:i:i], om.open[i+1:]...)
	if i != 0 {
		om.outOfOrder++ // an earlier admitted call is still open
	}
	if int64(m.now/bucketDur) != int64(c.admitAt/bucketDur) {
		om.acrossBucket++
	}
	if m.now-c.admitAt >= nBuckets*bucketDur {
		om.acrossWindow++
	}
	if c.outcome == oPanic && !c.isPromise() && len(om.open) > 0 {
		om.panicsWhileOthersOpen++
	}
	if _, defThrottling, _ := om.preState(); defThrottling {
		om.resolvedWhileThrottling++
	}
	om.logf(" close#%d(after %v)", c.id, m.now-c.admitAt)
	if c.ctxMode == 2 {
		c.cancel() // the caller gives up while the call is open: it was admitted, it is recorded like any other
		om.midCancelledOpen++
	}
	if c.isPromise() {
		// exactly one of Accept / Reject, exactly once (the statement says nothing about a second resolution)
		if c.outcome == oOK || c.outcome == oAccErr {
			c.p.Accept()
		} else {
			c.p.Reject("rejected by caller")
		}
	} else {
		close(c.gate)
		om.wait(fmt.Sprintf("call #%d did not return after its request returned", c.id), c.done, nil)
		if c.ran != 1 || c.fbRan != 0 {
			t.Fatalf("law 3: admitted call #%d: request ran %d times, fallback %d times; history:%s", c.id, c.ran, c.fbRan, om.log.String())
		}
		switch c.outcome {
		case oOK, oNilBad:
			if c.got != nil || c.pan != nil {
				t.Fatalf("law 3: ok call #%d returned %v panic=%v; history:%s", c.id, c.got, c.pan, om.log.String())
			}
		case oErr:
			if c.got != c.reqErr || c.pan != nil {
				t.Fatalf("law 3: failing call #%d returned %v (panic=%v), want its own request's error; history:%s", c.id, c.got, c.pan, om.log.String())
			}
		case oAccErr:
			if c.got != c.accErr || c.pan != nil {
				t.Fatalf("law 3: acceptable-error call #%d returned %v (panic=%v), want its own request's error; history:%s", c.id, c.got, c.pan, om.log.String())
			}
		case oPanic:
			if c.pan != any(c.panicVal) {
				t.Fatalf("law 3: panic of call #%d not re-raised unchanged: recovered %v want %v (returned %v); history:%s", c.id, c.pan, c.panicVal, c.got, om.log.String())
			}
		}
	}
	m.rec(c.recKind()) // recorded now, in the bucket of the moment of resolution
	om.checkAccounting()
}

func newOvMachine(t *rapid.T, st *verifkit.Stats) *ovMachine {
	return &ovMachine{machine: newMachine(t), st: st}
}

// drain: walk over the next 41 bucket boundaries; every bucket that leaves the window must take with it exactly
// what the model has recorded in it (a record put into another bucket than that of its moment shows here).
func (om *ovMachine) drain() {
	om.logf(" drain")
	om.m.adv(bucketDur - om.m.now%bucketDur)
	om.checkAccounting()
	for i := 0; i < nBuckets; i++ {
		om.m.adv(bucketDur)
		om.checkAccounting()
	}
}

func (om *ovMachine) classes() {
	st := om.st
	st.Class(fmt.Sprintf("max-open-at-once=%d", om.maxOpen))
	st.ClassN("calls-opened", om.opened)
	st.ClassN("resolved-out-of-admission-order", om.outOfOrder)
	st.ClassN("open-across-bucket-boundary", om.acrossBucket)
	st.ClassN("open-across-window(>=10s)", om.acrossWindow)
	st.ClassN("rejected-while-open", om.rejectedWhileOpen)
	st.ClassN("admitted-while-open", om.admittedWhileOpen)
	st.ClassN("panics-while-others-open", om.panicsWhileOthersOpen)
	st.ClassN("refused-for-done-context", om.refusedCtx)
	st.ClassN("context-cancelled-while-open", om.midCancelledOpen)
	st.ClassN("resolved-while-throttling", om.resolvedWhileThrottling)
	st.ClassN("forced-probes", om.forcedProbes)
	st.ClassN("calls", om.calls)
	st.ClassN("rejections", om.rejections)
	if om.outOfOrder > 0 {
		st.Class("case-with-out-of-order-resolution")
	}
	if om.rejectedWhileOpen > 0 {
		st.Class("case-with-rejection-while-open")
	}
	if om.forcedProbes > 0 {
		st.Class("case-with-forced-probe")
	}
	if om.acrossWindow > 0 {
		st.Class("case-with-call-open-across-window")
	}
}

func (om *ovMachine) nonTrivial() bool {
	return om.maxOpen >= 2 && om.outOfOrder >= 1 && om.acrossBucket >= 1 && om.rejectedWhileOpen >= 1
}

func TestVerifC01Overlap(t *testing.T) {
	logx.Disable()
	st := verifkit.New("breaker-overlap")
	defer st.Flush()
	defer timex.VerifUnfreeze()
	rapid.Check(t, func(t *rapid.T) {
		st.Eval()
		om := newOvMachine(t, st)
		defer om.cleanup()
		defer func() {
			if r := recover(); r != nil {
				if _, ok := r.(ovInconclusive); ok {
					return // watchdog: inconclusive, noted
				}
				panic(r)
			}
		}()
		closeOne := func(t *rapid.T) {
			i := 0
			switch rapid.SampledFrom([]string{"oldest", "newest", "random", "random"}).Draw(t, "which") {
			case "newest":
				i = len(om.open) - 1
			case "random":
				i = rapid.IntRange(0, len(om.open)-1).Draw(t, "i")
			}
			om.closeCall(i)
		}
		openOne := func(t *rapid.T) {
			om.openCall(rapid.IntRange(0, 9).Draw(t, "entry"), rapid.Bool().Draw(t, "pkgLevel"), rapid.IntRange(0, 4).Draw(t, "outcome"),
				rapid.SampledFrom([]int{0, 0, 0, 0, 0, 0, 1, 2, 2, 3}).Draw(t, "ctxMode"), rapid.Bool().Draw(t, "fallbackNil"))
		}
		t.Repeat(map[string]func(*rapid.T){
			"open": func(t *rapid.T) {
				om.t = t
				if len(om.open) >= ovMaxOpen {
					closeOne(t)
					return
				}
				openOne(t)
			},
			"open2": func(t *rapid.T) { // two calls in a row (calls pile up faster than they finish)
				om.t = t
				for k := 0; k < 2; k++ {
					if len(om.open) >= ovMaxOpen {
						closeOne(t)
					}
					openOne(t)
				}
			},
			"close": func(t *rapid.T) {
				om.t = t
				if len(om.open) == 0 {
					t.Skip("nothing open")
				}
				closeOne(t)
			},
			"advance": func(t *rapid.T) {
				om.t = t
				d := time.Duration(rapid.SampledFrom(gapsMs).Draw(t, "gapMs")) * time.Millisecond
				if rapid.Bool().Draw(t, "toBoundary") {
					d += bucketDur - (om.m.now+d)%bucketDur
				}
				om.m.adv(d)
				om.logf(" adv(%v)", d)
				om.checkAccounting()
			},
			"burst": func(t *rapid.T) {
				om.t = t
				n := rapid.IntRange(3, 60).Draw(t, "n")
				outcome := rapid.SampledFrom([]int{oOK, oOK, oErr, oErr, oErr, oAccErr, oPanic, oNilBad}).Draw(t, "outcome")
				sp := time.Duration(rapid.SampledFrom([]int{0, 0, 1, 5, 40}).Draw(t, "spacingMs")) * time.Millisecond
				entry := rapid.IntRange(0, 9).Draw(t, "entry")
				pkg := rapid.Bool().Draw(t, "pkgLevel")
				om.logf(" burst[%d x", n)
				rej := om.rejections
				for i := 0; i < n; i++ {
					om.call(entry, pkg, outcome, 0, 0, false)
					om.m.adv(sp)
				}
				if len(om.open) > 0 {
					om.rejectedWhileOpen += om.rejections - rej
				}
				om.logf(" ]")
			},
		})
		// at the end of a case every open call is closed (oldest first), then the window is drained
		for len(om.open) > 0 {
			om.closeCall(0)
		}
		om.drain()
		om.classes()
		if om.nonTrivial() {
			st.NonTrivial(om.log.String())
		}
	})
}

// A fixed shape of the kind the unit generates (plain, no rapid): three promises and a Do call open at once,
// resolved out of order across a bucket boundary and across the window, while the breaker is driven into
// throttling; the live bucket sums must equal what has been resolved so far after every step.
func TestVerifC01OverlapRegressShape(t *testing.T) {
	logx.Disable()
	defer timex.VerifUnfreeze()
	timex.VerifFreeze(vbase)
	b := breaker.NewBreaker()
	var wantS, wantF, wantD int64
	check := func(where string) {
		t.Helper()
		sum, s, f, d, ok := breaker.VerifCounts(b)
		if !ok {
			t.Fatalf("white-box accessor no longer matches the breaker's structure")
		}
		if s != wantS || f != wantF || d != wantD || sum != wantS+wantF+wantD {
			t.Fatalf("%s: window sum=%d succ=%d fail=%d drop=%d, want succ=%d fail=%d drop=%d", where, sum, s, f, d, wantS, wantF, wantD)
		}
	}
	p1, err1 := b.Allow()
	p2, err2 := b.Allow()
	p3, err3 := b.Allow()
	if err1 != nil || err2 != nil || err3 != nil {
		t.Fatalf("fresh breaker rejected: %v %v %v", err1, err2, err3)
	}
	gate, entered, done := make(chan struct{}), make(chan struct{}), make(chan struct{})
	boom := errors.New("own error")
	var got error
	go func() {
		defer close(done)
		got = b.Do(func() error { close(entered); <-gate; return boom })
	}()
	select {
	case <-entered:
	case <-time.After(ovWatchdog):
		t.Skip("inconclusive: request not entered")
	}
	check("four calls open, nothing resolved")
	timex.VerifAdvance(300 * time.Millisecond)
	p2.Reject("second first")
	wantF++
	check("second promise rejected")
	// drive the breaker into throttling while four calls are open
	for i := 0; i < 40; i++ {
		if err := b.Do(func() error { return boom }); err == breaker.ErrServiceUnavailable {
			wantD++
		} else {
			wantF++
		}
		check("burst")
	}
	if wantD == 0 {
		t.Skip("no rejection in this run (random drop), nothing more to assert")
	}
	timex.VerifAdvance(10*time.Second + time.Millisecond) // everything recorded so far leaves the window
	wantS, wantF, wantD = 0, 0, 0
	check("after the window")
	p3.Accept()
	wantS++
	check("third promise accepted after > 10 s")
	close(gate)
	select {
	case <-done:
	case <-time.After(ovWatchdog):
		t.Skip("inconclusive: call did not return")
	}
	if got != boom {
		t.Fatalf("open Do call returned %v, want its own error", got)
	}
	wantF++
	check("Do call resolved")
	p1.Accept()
	wantS++
	check("first promise accepted last")
}
