//go:build verif

package handler_test

import (
	"fmt"
	"net/http"
	"net/http/httptest"
	"strings"
	"sync/atomic"
	"testing"
	"time"

	"github.com/zeromicro/go-zero/core/logx"
	"github.com/zeromicro/go-zero/core/stat"
	"github.com/zeromicro/go-zero/core/timex"
	"github.com/zeromicro/go-zero/internal/verifkit"
	"github.com/zeromicro/go-zero/rest/handler"
	"pgregory.net/rapid"
)

const (
	c01base   = 400 * 24 * time.Hour
	c01bucket = 250 * time.Millisecond
)

var c01seq int64

// Call site: rest BreakerHandler.  Black-box: a response of 503 *without the handler having run* is a
// rejection; it is legal only when the recorded window justifies it (law 1); an admitted request runs the
// handler exactly once and is recorded as failure iff the handler's status code is >= 500.
func TestVerifC01BreakerHandler(t *testing.T) {
	logx.Disable()
	st := verifkit.New("rest-breakerhandler")
	defer st.Flush()
	defer timex.VerifUnfreeze()
	metrics := stat.NewMetrics("verif-c01")
	rapid.Check(t, func(t *rapid.T) {
		st.Eval()
		timex.VerifFreeze(c01base)
		path := fmt.Sprintf("/verif/%d", atomic.AddInt64(&c01seq, 1))
		ran := 0
		code := 200
		writeBody := false
		mw := handler.BreakerHandler(http.MethodGet, path, metrics)
		h := mw(http.HandlerFunc(func(w http.ResponseWriter, r *http.Request) {
			ran++
			if code != 0 {
				w.WriteHeader(code)
			}
			if writeBody {
				w.Write([]byte("body"))
			}
		}))
		var now time.Duration
		buckets := map[int64]*[2]int64{} // [succ, nonaccepted]
		win := func(k int64) (s, n int64) {
			cur := int64(now / c01bucket)
			for i := cur - k + 1; i <= cur; i++ {
				if b := buckets[i]; b != nil {
					s += b[0]
					n += b[1]
				}
			}
			return
		}
		rec := func(i int) {
			idx := int64(now / c01bucket)
			if buckets[idx] == nil {
				buckets[idx] = new([2]int64)
			}
			buckets[idx][i]++
		}
		var logb strings.Builder
		rejections, admAfter, calls := 0, 0, 0
		lastAd := time.Duration(-1)
		throttledAdmission := false
		one := func(c int, body bool) {
			calls++
			justified := false
			for _, k := range []int64{39, 40, 41} {
				if s, n := win(k); float64(n) > 5+0.1*float64(s) {
					justified = true
				}
			}
			s40, n40 := win(40)
			defThrottling := float64(s40+n40)-5-1.5*float64(s40) > 0
			mustAdmit := throttledAdmission && lastAd >= 0 && now-lastAd > time.Second
			ran, code, writeBody = 0, c, body
			rr := httptest.NewRecorder()
			h.ServeHTTP(rr, httptest.NewRequest(http.MethodGet, path, nil))
			if ran == 0 {
				rejections++
				if rr.Code != http.StatusServiceUnavailable {
					t.Fatalf("rejected request answered %d, want 503; %s", rr.Code, logb.String())
				}
				if !justified {
					s, n := win(40)
					t.Fatalf("law 1 at BreakerHandler: rejected with window succ=%d nonaccepted=%d; %s", s, n, logb.String())
				}
				if mustAdmit {
					t.Fatalf("law 5 at BreakerHandler: rejected %v after the previous throttled admission; %s", now-lastAd, logb.String())
				}
				rec(1)
				return
			}
			if ran != 1 {
				t.Fatalf("handler ran %d times; %s", ran, logb.String())
			}
			if rejections > 0 {
				admAfter++
			}
			want := c
			if c == 0 {
				want = 200
			}
			if rr.Code != want {
				t.Fatalf("admitted request: client saw %d, handler wrote %d; %s", rr.Code, want, logb.String())
			}
			if want >= 500 {
				rec(1)
			} else {
				rec(0)
			}
			if defThrottling {
				throttledAdmission = true
			}
			lastAd = now
		}
		codes := []int{0, 200, 201, 204, 301, 400, 404, 429, 499, 500, 502, 503, 504}
		t.Repeat(map[string]func(*rapid.T){
			"burst": func(t *rapid.T) {
				n := rapid.IntRange(1, 300).Draw(t, "n")
				c := rapid.SampledFrom(codes).Draw(t, "code")
				body := rapid.Bool().Draw(t, "body")
				sp := time.Duration(rapid.SampledFrom([]int{0, 1, 5, 40}).Draw(t, "spacingMs")) * time.Millisecond
				fmt.Fprintf(&logb, " %dx%d/%v", n, c, sp)
				for i := 0; i < n; i++ {
					one(c, body)
					now += sp
					timex.VerifAdvance(sp)
				}
			},
			"advance": func(t *rapid.T) {
				d := time.Duration(rapid.SampledFrom([]int{1, 250, 999, 1001, 2500, 9750, 10000, 10260, 31000}).Draw(t, "ms")) * time.Millisecond
				now += d
				timex.VerifAdvance(d)
				fmt.Fprintf(&logb, " adv(%v)", d)
			},
		})
		// final clause: after a quiet period longer than the window nothing recorded remains, so a
		// request must be admitted (law 1 with an empty window).
		now += 11 * time.Second
		timex.VerifAdvance(11 * time.Second)
		one(200, false)
		if ran != 1 {
			t.Fatalf("request after an 11 s quiet period was rejected; %s", logb.String())
		}
		st.ClassN("requests", calls)
		st.ClassN("rejections", rejections)
		if rejections > 0 && admAfter > 0 {
			st.NonTrivial(logb.String())
		}
	})
}

// Law 6 at the call site: a handler that answers only 5xx for more than a window makes the
// middleware reject the overwhelming majority (threshold 80 % of the last 500 requests; expected
// > 97 %, see TestVerifC01Trip for the bound), and a handler answering only < 500 is never rejected.
func TestVerifC01BreakerHandlerTrip(t *testing.T) {
	logx.Disable()
	st := verifkit.New("rest-breakerhandler-trip")
	defer st.Flush()
	defer timex.VerifUnfreeze()
	metrics := stat.NewMetrics("verif-c01-trip")
	rapid.Check(t, func(t *rapid.T) {
		st.Eval()
		timex.VerifFreeze(c01base)
		path := fmt.Sprintf("/verif/trip/%d", atomic.AddInt64(&c01seq, 1))
		code := rapid.SampledFrom([]int{500, 501, 502, 503, 504, 599, 200, 404, 499}).Draw(t, "code")
		spacing := time.Duration(rapid.SampledFrom([]int{2, 5, 10}).Draw(t, "spacingMs")) * time.Millisecond
		ran := 0
		h := handler.BreakerHandler(http.MethodPost, path, metrics)(http.HandlerFunc(func(w http.ResponseWriter, r *http.Request) {
			ran++
			w.WriteHeader(code)
		}))
		total := int(12*time.Second/spacing) + 500
		rejectedLast, rejectedAll := 0, 0
		for i := 0; i < total; i++ {
			ran = 0
			rr := httptest.NewRecorder()
			h.ServeHTTP(rr, httptest.NewRequest(http.MethodPost, path, nil))
			if ran == 0 {
				rejectedAll++
				if i >= total-500 {
					rejectedLast++
				}
			}
			timex.VerifAdvance(spacing)
		}
		if code >= 500 {
			if rejectedLast < 400 {
				t.Fatalf("law 6 at BreakerHandler: handler answered %d for %v, only %d of the last 500 requests were rejected", code, time.Duration(total)*spacing, rejectedLast)
			}
		} else if rejectedAll != 0 {
			t.Fatalf("law 1 at BreakerHandler: handler answered %d only, yet %d requests were rejected", code, rejectedAll)
		}
		st.NonTrivial(fmt.Sprintf("code=%d spacing=%v rejectedLast=%d", code, spacing, rejectedLast))
	})
}
