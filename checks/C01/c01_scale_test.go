//go:build verif

package breaker_test

// Unit `scale`: the laws of the `sm` unit at the VOLUME of a busy service.  The other units judge histories of a few
// thousand calls (at most about 10^4 outcomes inside one 10 s window: the trip unit's one call per millisecond); a
// busy service records 10^5 - 2*10^6 outcomes inside ONE window.  A case
//
//  1. drives a BULK of n calls (n log-uniform over more than six decades; large n rare in the quick tier) through
//     one entry point at a frozen or slowly advancing virtual clock - failures only, successes only, one success per
//     10^3..10^5 failures, one failure per 10^3..10^5 successes, alternating, successes then failures, failures then
//     successes - and keeps the reference model's per-bucket counters in O(1) per call.  The bulk is judged by the
//     O(1) parts of the oracle only: laws 2-3 (request / fallback ran 0 or 1 times, error identity), law 1 and
//     law 5 on running window sums that are recomputed from the model whenever the clock enters another bucket,
//     law 6 on the last 1000 calls of a failures-only bulk;
//  2. checks law 4 (bucket-exact white-box accounting) right after the bulk;
//  3. runs a rapid state machine whose calls are judged by the full per-call oracle of the `sm` unit
//     (machine.call: laws 1-5 with law 4 after every call): single calls through all ten entry points, forced
//     probes (a gap of more than 1 s, then a call: must be admitted although the drop ratio is 1-6/(T+1)), small
//     bursts, 1000-call failure bursts (law 6), gaps, bucket-by-bucket rolls with law 4 after every bucket, and
//     further bulks;
//  4. lets the whole window roll out bucket by bucket (law 4 after each) and checks that the next call is admitted.
//
// Sizes are not tuned to any threshold of the implementation: they are log-uniform, drawn from fair coins (rapid's
// integer generators favour small magnitudes, which is the opposite of what this unit is for).

import (
	"context"
	"errors"
	"fmt"
	"math"
	"testing"
	"time"

	"github.com/zeromicro/go-zero/core/breaker"
	"github.com/zeromicro/go-zero/core/logx"
	"github.com/zeromicro/go-zero/core/timex"
	"github.com/zeromicro/go-zero/internal/verifkit"
	"pgregory.net/rapid"
)

const (
	// the most outcomes the small generators put into one 10 s window (trip: one call per ms for >= 10 s)
	scSmallWindowMax = 10_000
	scNonTrivialMin  = 100 * scSmallWindowMax
	scSmallExp       = 4.5 // sizes below 10^4.5 are "small" for this unit, the rest "large"
	scTail           = 1000
)

var (
	// one case in scLargeEvery draws its size from the large range
	scLargeEvery = verifkit.EnvInt("c01_scale_large_every", 25)
	scMaxCalls   = verifkit.EnvInt("c01_scale_max", 2_000_000)
)

const (
	scFailOnly = iota
	scSuccOnly
	scRareSucc
	scRareFail
	scAlternate
	scSuccThenFail
	scFailThenSucc
)

var scPatternNames = [...]string{"failures-only", "successes-only", "one-success-per-P-failures", "one-failure-per-P-successes",
	"alternating", "successes-then-failures", "failures-then-successes"}

// scUniform: a uniform number in [0,1) with 16 bits of resolution, from fair coins (most significant first, so
// that shrinking makes it smaller).
func scUniform(t *rapid.T, label string) float64 {
	u := 0
	for _, b := range rapid.SliceOfN(rapid.Bool(), 16, 16).Draw(t, label) {
		u <<= 1
		if b {
			u |= 1
		}
	}
	return float64(u) / 65536
}

func scLogUniform(t *rapid.T, lo, hi float64, label string) float64 {
	return lo * math.Pow(hi/lo, scUniform(t, label))
}

// scDrawSize: log-uniform on [1, 10^4.5) for most cases, log-uniform on [10^4.5, scMaxCalls] for one case in
// scLargeEvery; monotone in the drawn number.
func scDrawSize(t *rapid.T) int {
	p := scUniform(t, "size")
	cut := 1 - 1/float64(scLargeEvery)
	if scLargeEvery <= 1 {
		cut = 0
	}
	hiExp := math.Log10(float64(scMaxCalls))
	var e float64
	if p < cut {
		e = p / cut * scSmallExp
	} else {
		e = scSmallExp + (p-cut)/(1-cut)*(hiExp-scSmallExp)
	}
	n := int(math.Pow(10, e))
	if n < 1 {
		n = 1
	}
	if n > scMaxCalls {
		n = scMaxCalls
	}
	return n
}

type scBulk struct {
	n        int
	pattern  int
	period   int // rare*: one odd call per period
	split    int // *Then*: index of the switch
	failKind int
	succKind int
	entry    int
	pkgLevel bool
	advances int           // number of clock advances spread evenly over the bulk; 0 = frozen clock
	step     time.Duration // size of one advance
}

func (sp scBulk) String() string {
	s := fmt.Sprintf("bulk[n=%d %s", sp.n, scPatternNames[sp.pattern])
	switch sp.pattern {
	case scRareSucc, scRareFail:
		s += fmt.Sprintf(" P=%d", sp.period)
	case scSuccThenFail, scFailThenSucc:
		s += fmt.Sprintf(" switch@%d", sp.split)
	}
	s += fmt.Sprintf(" via %s", entryNames[sp.entry])
	if sp.pkgLevel {
		s += "(package-level)"
	}
	s += fmt.Sprintf(" fail=%s succ=%s", ovOutcomeNames[sp.failKind], ovOutcomeNames[sp.succKind])
	if sp.advances == 0 {
		s += " clock frozen"
	} else {
		s += fmt.Sprintf(" clock +%v x%d", sp.step, sp.advances)
	}
	return s + "]"
}

func scHasAcc(entry int) bool {
	return entry == 2 || entry == 3 || entry == 6 || entry == 7 || entry >= 8
}
func scHasFb(entry int) bool { return entry >= 4 && entry <= 7 }

func scDrawBulk(t *rapid.T, n int, noPkgLevel bool) scBulk {
	sp := scBulk{n: n}
	sp.pattern = rapid.SampledFrom([]int{scFailOnly, scFailOnly, scSuccOnly, scRareSucc, scRareSucc, scRareFail, scAlternate,
		scSuccThenFail, scFailThenSucc}).Draw(t, "pattern")
	switch sp.pattern {
	case scRareSucc, scRareFail:
		sp.period = int(scLogUniform(t, 1e3, 1e5, "period"))
	case scSuccThenFail, scFailThenSucc:
		sp.split = int(float64(n) * scUniform(t, "switchAt"))
	}
	// mostly the direct entry points; the others now and then
	sp.entry = rapid.SampledFrom([]int{0, 2, 0, 2, 0, 2, 4, 6, 8, 1, 3, 5, 7, 9}).Draw(t, "entry")
	sp.pkgLevel = sp.entry < 8 && !noPkgLevel && rapid.IntRange(0, 3).Draw(t, "pkgLevel") == 3
	// a "failure" of the bulk is an outcome that this entry point records as failure, a "success" one that it
	// records as success (same table as machine.call)
	sp.failKind, sp.succKind = oErr, oOK
	if scHasAcc(sp.entry) {
		sp.failKind = rapid.SampledFrom([]int{oErr, oErr, oNilBad, oPanic}).Draw(t, "failKind")
		sp.succKind = rapid.SampledFrom([]int{oOK, oOK, oAccErr}).Draw(t, "succKind")
	} else {
		sp.failKind = rapid.SampledFrom([]int{oErr, oErr, oErr, oPanic}).Draw(t, "failKind")
	}
	if rapid.IntRange(0, 4).Draw(t, "clock") >= 2 { // slowly advancing
		span := scLogUniform(t, float64(time.Millisecond), float64(20*time.Second), "span")
		adv := int(scLogUniform(t, 1, 4000, "advances"))
		if adv > n {
			adv = n
		}
		sp.advances = adv
		sp.step = time.Duration(span / float64(adv))
		if sp.step < 1 {
			sp.step = 1
		}
	}
	return sp
}

func (sp scBulk) outcomeAt(i int) int {
	succ := false
	switch sp.pattern {
	case scSuccOnly:
		succ = true
	case scRareSucc:
		succ = i%sp.period == sp.period-1
	case scRareFail:
		succ = i%sp.period != sp.period-1
	case scAlternate:
		succ = i%2 == 0
	case scSuccThenFail:
		succ = i < sp.split
	case scFailThenSucc:
		succ = i >= sp.split
	}
	if succ {
		return sp.succKind
	}
	return sp.failKind
}

// scDriver issues calls with preallocated closures (nothing is allocated per call by the harness).
type scDriver struct {
	mc                     *machine
	ran, fbRan             int
	fbArg                  error
	cur                    int
	reqErr, accErr, fbErr  error
	req                    func() error
	acc                    func(error) bool
	fb                     func(error) error
	ctx                    context.Context
	bulkCalls, bulkRejects int
	bulks                  []string
	law6Tails              int
	maxVolume              int64 // largest window total seen at the end of a bulk
}

func newScDriver(mc *machine) *scDriver {
	d := &scDriver{mc: mc, reqErr: errors.New("req failed"), accErr: errors.New("acceptable failure"),
		fbErr: errors.New("fallback result"), ctx: context.Background()}
	d.req = func() error {
		d.ran++
		switch d.cur {
		case oOK, oNilBad:
			return nil
		case oErr:
			return d.reqErr
		case oAccErr:
			return d.accErr
		}
		panic(scPanicVal)
	}
	d.acc = func(err error) bool {
		if d.cur == oNilBad {
			return false
		}
		return err == nil || err == d.accErr
	}
	d.fb = func(err error) error { d.fbRan++; d.fbArg = err; return d.fbErr }
	return d
}

const scPanicVal = "boom-in-bulk"

// do performs one call; rejected (for Allow/AllowCtx) is reported through d.ran like for the Do* entry points.
func (d *scDriver) do(entry int, pkgLevel bool) error {
	b, name := d.mc.b, d.mc.name
	switch entry {
	case 0:
		if pkgLevel {
			return breaker.Do(name, d.req)
		}
		return b.Do(d.req)
	case 1:
		if pkgLevel {
			return breaker.DoCtx(d.ctx, name, d.req)
		}
		return b.DoCtx(d.ctx, d.req)
	case 2:
		if pkgLevel {
			return breaker.DoWithAcceptable(name, d.req, d.acc)
		}
		return b.DoWithAcceptable(d.req, d.acc)
	case 3:
		if pkgLevel {
			return breaker.DoWithAcceptableCtx(d.ctx, name, d.req, d.acc)
		}
		return b.DoWithAcceptableCtx(d.ctx, d.req, d.acc)
	case 4:
		if pkgLevel {
			return breaker.DoWithFallback(name, d.req, d.fb)
		}
		return b.DoWithFallback(d.req, d.fb)
	case 5:
		if pkgLevel {
			return breaker.DoWithFallbackCtx(d.ctx, name, d.req, d.fb)
		}
		return b.DoWithFallbackCtx(d.ctx, d.req, d.fb)
	case 6:
		if pkgLevel {
			return breaker.DoWithFallbackAcceptable(name, d.req, d.fb, d.acc)
		}
		return b.DoWithFallbackAcceptable(d.req, d.fb, d.acc)
	case 7:
		if pkgLevel {
			return breaker.DoWithFallbackAcceptableCtx(d.ctx, name, d.req, d.fb, d.acc)
		}
		return b.DoWithFallbackAcceptableCtx(d.ctx, d.req, d.fb, d.acc)
	}
	var p breaker.Promise
	var err error
	if entry == 8 {
		p, err = b.Allow()
	} else {
		p, err = b.AllowCtx(d.ctx)
	}
	if err != nil {
		return err
	}
	d.ran++
	if d.cur == oOK || d.cur == oAccErr {
		p.Accept()
	} else {
		p.Reject("rejected by caller")
	}
	return nil
}

func (d *scDriver) doRecover(entry int, pkgLevel bool) (got error, pan any) {
	defer func() { pan = recover() }()
	got = d.do(entry, pkgLevel)
	return
}

// bulk drives sp.n calls.  Model upkeep and the judged parts are O(1) per call; the window sums are recomputed
// from the model (O(40)) only when the clock has entered another bucket.
func (d *scDriver) bulk(sp scBulk) {
	mc, m, t := d.mc, &d.mc.m, d.mc.t
	desc := sp.String()
	fail := func(i int, ws, wf, wd int64, format string, a ...any) {
		t.Fatalf("%s; in %s at call #%d, now=%v, model window before the call succ=%d fail=%d drop=%d; history:%s %s…",
			fmt.Sprintf(format, a...), desc, i, m.now, ws, wf, wd, mc.log.String(), desc)
	}
	stride := sp.n + 1
	if sp.advances > 0 {
		stride = (sp.n + sp.advances - 1) / sp.advances
	}
	curIdx := int64(m.now / bucketDur)
	ws, wf, wd := m.win(nBuckets)
	bk := m.buckets[curIdx]
	hasFb, promise := scHasFb(sp.entry), sp.entry >= 8
	admitted0, rejected0 := 0, 0
	// law 6 on the tail of a failures-only bulk
	tailFrom := sp.n - scTail
	tailOK := sp.pattern == scFailOnly && sp.n >= 2*scTail
	tailRejected := 0
	var tailStart time.Duration
	for i := 0; i < sp.n; i++ {
		if i > 0 && i%stride == 0 {
			m.adv(sp.step)
			if idx := int64(m.now / bucketDur); idx != curIdx {
				curIdx = idx
				ws, wf, wd = m.win(nBuckets)
				bk = m.buckets[idx]
			}
		}
		outcome := sp.outcomeAt(i)
		d.cur = outcome
		r0, f0 := d.ran, d.fbRan
		var got error
		var pan any
		got, pan = d.doRecover(sp.entry, sp.pkgLevel)
		if pan != nil && (outcome != oPanic || promise || d.ran == r0) {
			fail(i, ws, wf, wd, "the call panicked with %v although its request did not", pan)
		}
		admitted := d.ran != r0
		mustAdmit := mc.throttledAdmission && mc.lastAd >= 0 && m.now-mc.lastAd > time.Second
		if i >= tailFrom && tailOK {
			if i == tailFrom {
				tailStart = m.now
			}
			if ws != 0 || wf+wd < scTail {
				tailOK = false // not (or no longer) "sustained total failure" inside the window
			}
			if !admitted {
				tailRejected++
			}
		}
		if bk == nil {
			bk = new([3]int64)
			m.buckets[curIdx] = bk
		}
		if !admitted {
			if pan != nil {
				fail(i, ws, wf, wd, "rejected call panicked: %v", pan)
			}
			if hasFb {
				if d.fbRan != f0+1 || d.fbArg != breaker.ErrServiceUnavailable || got != d.fbErr {
					fail(i, ws, wf, wd, "rejected call with fallback: fallback ran %d times with %v, call returned %v", d.fbRan-f0, d.fbArg, got)
				}
			} else if got != breaker.ErrServiceUnavailable {
				fail(i, ws, wf, wd, "rejected call returned %v, want ErrServiceUnavailable", got)
			}
			if !(float64(wf+wd) > 5+0.1*float64(ws)) {
				fail(i, ws, wf, wd, "law 1 (only-when): call rejected although the 10 s window does not hold fail+drop > 5+0.1*succ")
			}
			if mustAdmit {
				fail(i, ws, wf, wd, "law 5 (forced probe): rejected although the previous admission was %v ago while throttling", m.now-mc.lastAd)
			}
			bk[kDrop]++
			wd++
			rejected0++
			continue
		}
		if d.ran != r0+1 || d.fbRan != f0 {
			fail(i, ws, wf, wd, "admitted call: request ran %d times, fallback %d times", d.ran-r0, d.fbRan-f0)
		}
		if !promise {
			switch outcome {
			case oOK, oNilBad:
				if got != nil || pan != nil {
					fail(i, ws, wf, wd, "ok call returned %v panic=%v", got, pan)
				}
			case oErr:
				if got != d.reqErr || pan != nil {
					fail(i, ws, wf, wd, "failing call returned %v (panic=%v), want the request's own error", got, pan)
				}
			case oAccErr:
				if got != d.accErr || pan != nil {
					fail(i, ws, wf, wd, "acceptable-error call returned %v (panic=%v), want the request's own error", got, pan)
				}
			case oPanic:
				if pan != scPanicVal {
					fail(i, ws, wf, wd, "panic not re-raised unchanged: recovered %v (returned %v)", pan, got)
				}
			}
		}
		if float64(ws+wf+wd)-5-1.5*float64(ws) > 0 {
			mc.throttledAdmission = true
			if mustAdmit {
				mc.forcedProbes++
			}
		}
		mc.lastAd = m.now
		if mc.rejections+rejected0 > 0 {
			mc.admAfterReject++
		}
		if outcome == sp.succKind {
			bk[kSucc]++
			ws++
		} else {
			bk[kFail]++
			wf++
		}
		admitted0++
	}
	mc.calls += sp.n
	mc.rejections += rejected0
	d.bulkCalls += sp.n
	d.bulkRejects += rejected0
	res := fmt.Sprintf(" %s=>admitted %d rejected %d", desc, admitted0, rejected0)
	mc.logf("%s", res)
	d.bulks = append(d.bulks, res)
	if tailOK && m.now-tailStart <= 50*time.Second {
		// the window held >= 1000 failures/rejections and no success before every one of the last 1000 calls, which
		// took <= 50 s (<= 51 forced probes): admission probability per call <= 6/1001, so >= 200 admissions of
		// 1000 have probability < 1e-100 (Chernoff), cf. TestVerifC01Trip
		d.law6Tails++
		if tailRejected < 800 {
			t.Fatalf("law 6 (does trip): only %d of the last %d calls of a failures-only bulk were rejected although the window held only failures and rejections (>= %d of them); history:%s",
				tailRejected, scTail, scTail, mc.log.String())
		}
	}
	// law 4 right after the bulk
	mc.checkAccounting()
	if s, f, dd := m.win(nBuckets); s+f+dd > d.maxVolume {
		d.maxVolume = s + f + dd
	}
}

func scDecade(n int64) string {
	if n <= 0 {
		return "0"
	}
	e := int(math.Floor(math.Log10(float64(n))))
	return fmt.Sprintf("1e%d..1e%d", e, e+1)
}

func TestVerifC01Scale(t *testing.T) {
	logx.Disable()
	st := verifkit.New("breaker-scale")
	defer st.Flush()
	defer timex.VerifUnfreeze()
	rapid.Check(t, func(t *rapid.T) {
		st.Eval()
		mc := newMachine(t)
		d := newScDriver(mc)
		n := scDrawSize(t)
		first := scDrawBulk(t, n, mc.noPkgLevel)
		d.bulk(first)
		vs, vf, vd := mc.m.win(nBuckets)
		volume := vs + vf + vd // what the window holds when the judged phase begins

		judgedCalls, probesAtVolume, laterBulks, law6Bursts, rolledOut := 0, 0, 0, 0, 0
		maxProbeRatio := 0.0
		// judged: one call through the full per-call oracle of the sm unit
		judged := func(entry int, pkg bool, outcome int, dur time.Duration, ctxMode int, fbNil bool) {
			s, f, dd := mc.m.win(nBuckets)
			fp := mc.forcedProbes
			mc.call(entry, pkg, outcome, dur, ctxMode, fbNil)
			judgedCalls++
			if mc.forcedProbes > fp {
				if s+f+dd >= 100_000 {
					probesAtVolume++
				}
				if r := (float64(s+f+dd-5) - 1.5*float64(s)) / float64(s+f+dd+1); r > maxProbeRatio {
					maxProbeRatio = r // a lower bound of the drop ratio this probe overrode (weight <= 1.5)
				}
			}
		}
		drawCall := func(t *rapid.T) {
			judged(rapid.IntRange(0, 9).Draw(t, "entry"), rapid.Bool().Draw(t, "pkgLevel"), rapid.IntRange(0, 4).Draw(t, "outcome"),
				time.Duration(rapid.SampledFrom([]int{0, 0, 0, 1, 250, 1200}).Draw(t, "durMs"))*time.Millisecond,
				rapid.SampledFrom([]int{0, 0, 0, 0, 0, 1, 2, 3}).Draw(t, "ctxMode"), rapid.Bool().Draw(t, "fallbackNil"))
		}
		roll := func(k int, withCalls bool, outcome int) {
			mc.logf(" roll[%d buckets", k)
			for j := 0; j < k; j++ {
				mc.m.adv(bucketDur)
				mc.checkAccounting()
				if withCalls {
					judged(2, false, outcome, 0, 0, false)
				}
			}
			mc.logf(" ]")
		}
		t.Repeat(map[string]func(*rapid.T){
			"call": func(t *rapid.T) {
				mc.t = t
				drawCall(t)
			},
			"probe": func(t *rapid.T) {
				// a gap around the forced-pass distance, short enough to keep the volume inside the window, then a call
				mc.t = t
				gap := time.Duration(rapid.SampledFrom([]int{1001, 1001, 1000, 999, 1500, 2500, 5000, 9000}).Draw(t, "gapMs")) * time.Millisecond
				if rapid.Bool().Draw(t, "plusOneNs") {
					gap += time.Nanosecond
				}
				mc.m.adv(gap)
				mc.logf(" adv(%v)", gap)
				mc.checkAccounting()
				judged(rapid.SampledFrom([]int{0, 2, 4, 8, 9, 1}).Draw(t, "entry"), false, rapid.SampledFrom([]int{oErr, oErr, oOK, oPanic}).Draw(t, "outcome"), 0, 0, false)
			},
			"burst": func(t *rapid.T) {
				mc.t = t
				k := rapid.IntRange(2, 200).Draw(t, "n")
				outcome := rapid.SampledFrom([]int{oOK, oErr, oErr, oErr, oAccErr, oPanic, oNilBad}).Draw(t, "outcome")
				sp := time.Duration(rapid.SampledFrom([]int{0, 1, 5, 40, 300}).Draw(t, "spacingMs")) * time.Millisecond
				entry := rapid.IntRange(0, 9).Draw(t, "entry")
				pkg := rapid.Bool().Draw(t, "pkgLevel")
				mc.logf(" burst[%d x", k)
				for i := 0; i < k; i++ {
					judged(entry, pkg, outcome, 0, 0, false)
					mc.m.adv(sp)
				}
				mc.logf(" ]")
			},
			"failburst": func(t *rapid.T) {
				// law 6 on judged calls: 1000 failing calls while the window holds >= 1000 failures/rejections and no success
				mc.t = t
				if s, f, dd := mc.m.win(nBuckets); law6Bursts >= 1 || s != 0 || f+dd < scTail {
					t.Skip("one failure burst per case, and only under sustained total failure")
				}
				entry := rapid.IntRange(0, 9).Draw(t, "entry")
				outcome := rapid.SampledFrom([]int{oErr, oErr, oPanic}).Draw(t, "failKind")
				sp := time.Duration(rapid.SampledFrom([]int{0, 0, 1, 5}).Draw(t, "spacingMs")) * time.Millisecond
				ok, rej0 := true, mc.rejections
				mc.logf(" failburst[%d x %s(%s) %v apart]", scTail, entryNames[entry], ovOutcomeNames[outcome], sp)
				nlog := mc.nlog
				mc.nlog = 1 << 30 // the 1000 calls are not logged one by one
				for i := 0; i < scTail; i++ {
					if s, f, dd := mc.m.win(nBuckets); s != 0 || f+dd < scTail {
						ok = false
					}
					judged(entry, false, outcome, 0, 0, false)
					mc.m.adv(sp)
				}
				mc.nlog = nlog
				mc.logf("=>rejected %d", mc.rejections-rej0)
				if ok {
					law6Bursts++
					if rej := mc.rejections - rej0; rej < 800 {
						t.Fatalf("law 6 (does trip): only %d of %d failing calls were rejected although the window held only failures and rejections (>= %d of them); history:%s",
							rej, scTail, scTail, mc.log.String())
					}
				}
			},
			"advance": func(t *rapid.T) {
				mc.t = t
				g := time.Duration(rapid.SampledFrom(gapsMs).Draw(t, "gapMs")) * time.Millisecond
				if rapid.Bool().Draw(t, "toBoundary") {
					g += bucketDur - (mc.m.now+g)%bucketDur
				}
				mc.m.adv(g)
				mc.logf(" adv(%v)", g)
				mc.checkAccounting()
			},
			"roll": func(t *rapid.T) {
				mc.t = t
				k := rapid.IntRange(1, 45).Draw(t, "buckets")
				if k >= nBuckets && d.maxVolume >= 100_000 {
					rolledOut++
				}
				roll(k, rapid.Bool().Draw(t, "withCalls"), rapid.SampledFrom([]int{oErr, oOK}).Draw(t, "outcome"))
			},
			"bulk": func(t *rapid.T) {
				mc.t = t
				if laterBulks >= 2 || n < 8 {
					t.Skip("enough bulks in this case")
				}
				laterBulks++
				k := int(scLogUniform(t, 1, float64(n)/4, "laterBulkSize"))
				d.bulk(scDrawBulk(t, k, mc.noPkgLevel))
			},
		})
		mc.t = t
		// the window rolls out bucket by bucket: law 4 after each; then nothing is left that could justify a rejection
		roll(nBuckets+1, false, oOK)
		if s, f, dd := mc.m.win(nBuckets); s+f+dd != 0 {
			t.Fatalf("harness: model window not empty after %d buckets: %d %d %d", nBuckets+1, s, f, dd)
		}
		for i := 0; i < 5; i++ { // the window holds 0..4 outcomes: no rejection can be justified (law 1)
			judged(2*(i%2), false, oErr, 0, 0, false)
		}

		st.Class("first-bulk-calls=" + scDecade(int64(n)))
		st.Class("window-volume-when-judging-starts=" + scDecade(volume))
		st.Class("first-bulk:" + scPatternNames[first.pattern])
		if first.advances == 0 {
			st.Class("first-bulk:clock-frozen")
		} else {
			st.Class("first-bulk:clock-advancing")
			if time.Duration(first.advances)*first.step > 10*time.Second {
				st.Class("first-bulk:spans-more-than-one-window")
			}
		}
		if float64(n) >= math.Pow(10, scSmallExp) {
			st.Class("large-case(first bulk >= 10^4.5 calls)")
		}
		if d.maxVolume >= 100_000 {
			st.Class("window-held>=1e5-outcomes")
		}
		if d.maxVolume >= scNonTrivialMin {
			st.Class("window-held>=1e6-outcomes")
		}
		if probesAtVolume > 0 {
			st.Class("case-with-forced-probe-at-volume>=1e5")
		}
		if maxProbeRatio >= 0.9999 {
			st.Class("forced-probe-overrode-drop-ratio>=0.9999")
		}
		if maxProbeRatio >= 0.99999 {
			st.Class("forced-probe-overrode-drop-ratio>=0.99999")
		}
		if rolledOut > 0 {
			st.Class("case-with-whole-window-roll-after-volume>=1e5(in addition to the final one)")
		}
		if mc.rejections > 0 {
			st.Class("opened")
		}
		st.ClassN("bulk-calls", d.bulkCalls)
		st.ClassN("bulk-rejections", d.bulkRejects)
		st.ClassN("judged-calls", judgedCalls)
		st.ClassN("forced-probes", mc.forcedProbes)
		st.ClassN("forced-probes-at-volume>=1e5", probesAtVolume)
		st.ClassN("law6-judged-on-bulk-tail", d.law6Tails)
		st.ClassN("law6-judged-on-failure-burst", law6Bursts)
		st.ClassN("later-bulks", laterBulks)
		if volume >= scNonTrivialMin && judgedCalls > 0 {
			st.NonTrivial(fmt.Sprintf("volume=%d;%s", volume, mc.log.String()))
		}
	})
}

// Plain (no rapid) large cases: they keep the volume path exercised at every seed, whatever the generator draws.
//
// 1.2 million failures at a frozen clock, then the calls that follow.
func TestVerifC01ScaleRegressMillionFailures(t *testing.T) {
	logx.Disable()
	defer timex.VerifUnfreeze()
	timex.VerifFreeze(vbase)
	b := breaker.NewBreaker()
	failErr := errors.New("x")
	ran := 0
	req := func() error { ran++; return failErr }
	counts := func() (sum, succ, fail, drop int64) {
		sum, succ, fail, drop, ok := breaker.VerifCounts(b)
		if !ok {
			t.Fatalf("white-box accessor no longer matches the breaker's structure")
		}
		return
	}
	const n = 1_200_000
	for i := 0; i < n; i++ {
		if err := b.Do(req); err != failErr && err != breaker.ErrServiceUnavailable {
			t.Fatalf("call #%d returned %v", i, err)
		}
	}
	if sum, succ, fail, drop := counts(); sum != n || succ != 0 || fail != int64(ran) || drop != int64(n-ran) {
		t.Fatalf("law 4 after %d failing calls at a frozen clock (%d admitted): window sum=%d succ=%d fail=%d drop=%d", n, ran, sum, succ, fail, drop)
	}
	if ran <= 6 {
		// the first 6 calls (window total 0..5) are admitted because the breaker is closed
		t.Skipf("%d admissions: none while throttling, nothing more to assert", ran)
	}
	// law 5: more than 1 s after the last admission (all admissions were at this instant) the next call is admitted
	timex.VerifAdvance(time.Second + time.Nanosecond)
	r0 := ran
	_ = b.Do(req)
	if ran != r0+1 {
		t.Fatalf("law 5: call 1.000000001 s after the previous throttled admission was rejected with %d outcomes in the window", n)
	}
	// the window rolls out bucket by bucket (law 4 after each): the bulk sits in bucket 0, the probe in bucket 4
	timex.VerifAdvance(bucketDur - time.Nanosecond) // now at 1.25 s = start of bucket 5
	for k := 5; k <= 45; k++ {
		want := int64(0)
		if k <= 39 {
			want += n
		}
		if k <= 43 {
			want++
		}
		if sum, _, _, _ := counts(); sum != want {
			t.Fatalf("law 4 while the window rolls out: %v after the bulk of %d and %v after the probe the window holds %d outcomes, want %d",
				time.Duration(k)*bucketDur, n, time.Duration(k)*bucketDur-time.Second-time.Nanosecond, sum, want)
		}
		timex.VerifAdvance(bucketDur)
	}
	// nothing is left: the next calls are admitted (law 1: the window holds 0..4 outcomes) and are alone in the window
	for i := 1; i <= 5; i++ {
		r0 = ran
		_ = b.Do(req)
		if sum, _, fail, _ := counts(); ran != r0+1 || sum != int64(i) || fail != int64(i) {
			t.Fatalf("call #%d after the window rolled out: admitted=%v, window sum=%d fail=%d (want %d, %d)", i, ran == r0+1, sum, fail, i, i)
		}
	}
	// counted as one (fixed) case of the unit: 1.2e6 outcomes in the window, the calls that followed were judged
	st := verifkit.New("breaker-scale")
	st.Eval()
	st.Class("plain-case:1.2e6-failures-frozen-clock")
	st.NonTrivial("plain case: 1.2e6 failures at a frozen clock; probe after 1.000000001 s; roll-out bucket by bucket; 5 calls")
	st.Flush()
}

// 1.2 million successes while the clock moves through 8 buckets, then 100 000 failures: fail+drop never exceeds
// 5 + 10% of the successes, so nothing may be rejected (law 1); law 4 at the end.
func TestVerifC01ScaleRegressMillionSuccesses(t *testing.T) {
	logx.Disable()
	defer timex.VerifUnfreeze()
	timex.VerifFreeze(vbase)
	b := breaker.NewBreaker()
	failErr := errors.New("x")
	ran, outcome := 0, error(nil)
	req := func() error { ran++; return outcome }
	const n, nf = 1_200_000, 100_000
	for i := 0; i < n+nf; i++ {
		if i == n {
			outcome = failErr
		}
		if i%150_000 == 149_999 {
			timex.VerifAdvance(bucketDur)
		}
		if err := b.Do(req); err != outcome || ran != i+1 {
			t.Fatalf("law 1: call #%d returned %v (request ran: %v) although the window holds %d successes and %d failures", i, err, ran == i+1,
				min(i, n), max(0, i-n))
		}
	}
	sum, succ, fail, drop, ok := breaker.VerifCounts(b)
	if !ok {
		t.Fatalf("white-box accessor no longer matches the breaker's structure")
	}
	if sum != n+nf || succ != n || fail != nf || drop != 0 {
		t.Fatalf("law 4 after %d successes and %d failures: window sum=%d succ=%d fail=%d drop=%d", n, nf, sum, succ, fail, drop)
	}
	st := verifkit.New("breaker-scale")
	st.Eval()
	st.Class("plain-case:1.2e6-successes-then-1e5-failures")
	st.NonTrivial("plain case: 1.2e6 successes over 8 buckets, then 1e5 failures, none rejected")
	st.Flush()
}
